"""Overlapping writers of ONE process, advanced one step at a time.

The driver keeps writers open across requests (wh_open / wh_write / wh_final), so a plan is a set of 2-3 writers
and a random merge of their steps (open, chunk..., commit|drop). Between any two steps the harness looks at the
cache from outside: that is the "at every instant" of C03 and the "some serial order" of C07 for writers whose
lifetimes overlap inside one process - something neither one-request-per-operation histories nor the
system-call scheduler (whole operations per process) produce."""
import os

from . import ev, gen, ref

ALGOS = ["sha256", "sha256", "sha512", "sha1", "sha384"]


def gen_plan(rng, modes, big=False):
    variant = rng.choice(sorted({m.split("@")[1] for m in modes}))
    vmodes = [m for m in modes if m.endswith("@" + variant)]
    nw = rng.choice([2, 2, 2, 3])
    shared = rng.random() < 0.7
    size = rng.choice([1, 5, 100, 4097, 20000] + ([gen.MIB + 1] if big else []))
    base = rng.randbytes(size)
    algo = rng.choice(ALGOS)
    same_decl = rng.choice([None, None, "sri", "both", "size"])
    writers = []
    for i in range(nw):
        if shared or i == 0:
            data = base
        else:
            data = rng.randbytes(rng.choice([size, size + 1, max(1, size // 2)]))
        decl = same_decl or rng.choice(["none", "size", "sri", "both"])
        kind = rng.choice(["ok"] * 8 + ["bad-size", "bad-sri"])
        opts = {"algo": algo}
        if decl in ("size", "both"):
            opts["size"] = len(data) if kind != "bad-size" else len(data) + 1
        if decl in ("sri", "both"):
            opts["sri"] = ref.sri(algo, data if kind != "bad-sri" else data + b"!")
            if kind == "ok" and rng.random() < 0.3:
                # next to the right hash, a hash of ANOTHER algorithm that is of other data (the writer cannot check it)
                oa = rng.choice([a for a in ("sha512", "sha384", "sha256", "sha1") if a != algo])
                opts["sri"] = ref.sri(oa, data + b"?") + " " + opts["sri"]
        rejected = (kind == "bad-size" and "size" in opts) or (kind == "bad-sri" and "sri" in opts)
        nchunks = min(len(data), rng.choice([1, 2, 2, 3]))
        _, lens = gen.chunking(rng, len(data), "random") if nchunks > 1 else ("one", [len(data)])
        writers.append({"wid": f"w{i}", "mode": rng.choice(vmodes), "key": rng.choice([None, "k", "k", "k2"]),
                        "data": data, "algo": algo, "opts": opts, "lens": lens, "rejected": rejected,
                        "final": "commit" if rng.random() < 0.8 else "drop"})
    tokens = []
    for w in writers:
        tokens.append([(w["wid"], "open", None)] + [(w["wid"], "chunk", j) for j in range(len(w["lens"]))]
                      + [(w["wid"], "final", None)])
    order = []
    while any(tokens):
        t = rng.choice([t for t in tokens if t])
        order.append(t.pop(0))
    return {"writers": writers, "order": order}


def describe(plan):
    ws = "; ".join(f"{w['wid']}({w['mode']},key={w['key']!r},len={len(w['data'])},opts={sorted(w['opts'])},"
                   f"chunks={w['lens']},{w['final']}{',to-be-rejected' if w['rejected'] else ''})" for w in plan["writers"])
    return ws + " order=" + " ".join(f"{a}.{b}{'' if c is None else c}" for a, b, c in plan["order"])


def run_plan(ctx, plan, cache, content_monitor=True, results_monitor=True, label="interleaved"):
    """Execute one plan. Returns the set of distinct observation classes."""
    W = {w["wid"]: w for w in plan["writers"]}
    chunks = {w["wid"]: gen.split(w["data"], w["lens"]) for w in plan["writers"]}
    live = set()
    committed = {}      # key -> writer (model: the last successful commit wins)
    stored = {}         # sri -> data of successful commits
    seen = set()
    desc = describe(plan)
    same_data = len({w["data"] for w in plan["writers"]}) == 1
    shape = ("same-data" if same_data else "different-data",
             "declared:" + ",".join(sorted({"+".join(sorted(k for k in w["opts"] if k != "algo")) or "none" for w in plan["writers"]})))
    for si, (wid, what, j) in enumerate(plan["order"]):
        w = W[wid]
        if what == "open":
            req = {"op": "wh_open", "cache": cache, "wid": wid, "opts": w["opts"]}
            if w["key"] is not None:
                req["key"] = w["key"]
        elif what == "chunk":
            req = {"op": "wh_write", "cache": cache, "wid": wid, "data": ctx.data(chunks[wid][j])}
        else:
            req = {"op": "wh_final", "cache": cache, "wid": wid, "final": w["final"]}
        r = ctx.call(w["mode"], req)
        step = f"step {si} ({wid}.{what}{'' if j is None else j})"
        ctx.count("interleaved_steps")
        if isinstance(r.get("err"), dict) and r["err"].get("variant") == "HarnessNoWriter":
            ctx.inconc(f"{label} writers: the driver lost its writer handles (restarted after a stall); plan abandoned")
            return seen
        if ev.is_panic(r) or ev.is_hang(r) or "died" in r:
            ctx.violation(f"{label}|{what}|{w['mode']}|{ev.variant(r)}",
                          f"{label} writers: {step} ended in {ev.brief(r)}", {"plan": desc, "step": si})
            return seen
        if what == "open":
            live.add(wid)
        # ---- results
        if results_monitor:
            bad = None
            if what in ("open", "chunk") and not ev.is_ok(r):
                bad = f"{step} failed: {ev.brief(r)}"
            elif what == "final" and w["final"] == "drop" and not ev.is_ok(r):
                bad = f"{step} (drop) failed: {ev.brief(r)}"
            elif what == "final" and w["final"] == "commit":
                want = ref.sri(w["algo"], w["data"])
                if w["rejected"]:
                    if not (ev.is_err(r, "SizeMismatch") or ev.is_err(r, "IntegrityError")):
                        bad = f"{step}: commit with a wrong declaration returned {ev.brief(r)}"
                elif not ev.is_ok(r):
                    bad = f"{step}: commit failed although every declaration is right: {ev.brief(r)}"
                elif r["ok"].get("sri") != want:
                    bad = f"{step}: commit returned {r['ok'].get('sri')}, the data's {w['algo']} address is {want}"
            if bad:
                ctx.violation(f"{label}|{what}|{w['mode']}|{shape[0]}|{ev.variant(r)}",
                              f"{label} writers: {bad}", {"plan": desc, "step": si, "response": r})
        if what == "final":
            live.discard(wid)
            if w["final"] == "commit" and ev.is_ok(r) and not w["rejected"]:
                stored[ref.sri(w["algo"], w["data"])] = w["data"]
                if w["key"] is not None:
                    committed[w["key"]] = w
        # ---- the content area, right now
        if content_monitor:
            probs = ref.check_content_tree(cache)
            ctx.count("content_area_inspections")
            if probs:
                ctx.violation(f"{label}|content-area|{w['mode']}|{shape[0]}|{shape[1]}",
                              f"{label} writers: after {step} with {len(live)} writer(s) still open: {probs[0]}",
                              {"plan": desc, "step": si, "problems": probs[:5]})
                return seen
        # ---- what lookups say, after every final
        if results_monitor and what == "final":
            for key in ("k", "k2"):
                m = ctx.call(w["mode"], {"op": "metadata", "cache": cache, "key": key})
                cw = committed.get(key)
                if cw is None:
                    if not (ev.is_ok(m) and m["ok"].get("entry") is None):
                        ctx.violation(f"{label}|lookup-uncommitted|{w['mode']}",
                                      f"{label} writers: after {step} key {key!r} has no successful commit but metadata says {ev.brief(m)}",
                                      {"plan": desc, "step": si})
                    continue
                want = ref.sri(cw["algo"], cw["data"])
                ent = m.get("ok", {}).get("entry") if ev.is_ok(m) else None
                if not ent or ent.get("integrity") != want or ent.get("size") != len(cw["data"]):
                    ctx.violation(f"{label}|lookup-committed|{w['mode']}|{shape[0]}",
                                  f"{label} writers: after {step} key {key!r} was last committed by {cw['wid']} ({want}, "
                                  f"{len(cw['data'])} bytes) but metadata says {ev.brief(m)}", {"plan": desc, "step": si})
                    continue
                rd = ctx.call(w["mode"], {"op": "read", "cache": cache, "key": key})
                if not ev.is_ok(rd) or ev_data(rd) != cw["data"]:
                    ctx.violation(f"{label}|read-committed|{w['mode']}|{shape[0]}",
                                  f"{label} writers: after {step} read({key!r}) does not return the committed data: {ev.brief(rd)}",
                                  {"plan": desc, "step": si})
            for s, d in stored.items():
                rd = ctx.call(w["mode"], {"op": "read_hash", "cache": cache, "sri": s})
                if not ev.is_ok(rd) or ev_data(rd) != d:
                    ctx.violation(f"{label}|read_hash-committed|{w['mode']}|{shape[0]}",
                                  f"{label} writers: after {step} read_hash({s[:20]}...) of successfully committed data: {ev.brief(rd)}",
                                  {"plan": desc, "step": si})
        seen.add((what, w["mode"], len(live)) + shape)
    return seen


def ev_data(r):
    from . import drv
    try:
        return drv.data_bytes(r["ok"]["data"])
    except Exception:
        return None


def run(ctx, modes, nplans, content_monitor=True, results_monitor=True, big=False):
    rng = ctx.rng
    for pi in range(nplans):
        plan = gen_plan(rng, modes, big=big and pi % 10 == 0)
        cache = ctx.new_cache()
        if rng.random() < 0.5:
            # warm: the shared data may already be present
            ctx.call(plan["writers"][0]["mode"], {"op": "write", "cache": cache, "key": "warm", "data": ctx.data(b"warm entry")})
        seen = run_plan(ctx, plan, cache, content_monitor, results_monitor)
        for s in seen:
            ctx.case(distinct_key=("interleaved",) + s,
                     sample={"population": "interleaved writers", "plan": describe(plan)[:400]} if pi % 40 == 0 else None)
        ctx.count("interleaved_plans")
        ctx.rm(cache)


def cancelled_writes(ctx, modes, n):
    """Async writers on which a write future is dropped while pending (a timeout or select! that lost) and which are
    then used further: what ends up stored is not specified (the cancelled bytes may or may not be part of it), but
    whatever commit() returns must name a content file that matches its address, nothing in the content area may be
    invalid, and nothing may panic."""
    rng = ctx.rng
    amodes = [m for m in modes if m.startswith("async")]
    for i in range(n):
        mode = amodes[i % len(amodes)]
        cache = ctx.new_cache()
        ln = rng.choice([1, 7, 300, 4097, 70000])
        data = rng.randbytes(ln)
        _, lens = gen.chunking(rng, ln)
        chunks = gen.split(data, lens) or [b""]
        # content that is already stored and must survive, sometimes equal to what the writer is given
        prior = data if rng.random() < 0.3 else rng.randbytes(rng.choice([5, 3000]))
        pr = ctx.call("sync@astd", {"op": "write", "cache": cache, "key": "stored-before", "data": ctx.data(prior)})
        ncancel = rng.choice([1, 1, 2])
        cancels = [[rng.randrange(len(chunks)), ctx.data(rng.randbytes(rng.choice([1, 50, 5000, 200000, 3 * gen.MIB])))]
                   for _ in range(ncancel)]
        opts = {}
        r = rng.random()
        if r < 0.3:
            opts["size"] = ln
        elif r < 0.4:
            opts["sri"] = ref.sri("sha256", data)
        req = {"op": "writer", "cache": cache, "opts": opts, "chunks": [ctx.data(c) for c in chunks],
               "cancel_before": cancels, "use_write_all": rng.random() < 0.6,
               "final": rng.choice(["commit", "commit", "commit", "drop", "close_commit"])}
        if rng.random() < 0.6:
            req["key"] = "k"
        w = ctx.call(mode, req, timeout=60)
        ctx.count("writers_with_cancelled_writes")
        cls = ("cancelled-write", mode, "declared" if opts else "plain", req["final"], ev.variant(w))
        ctx.case(distinct_key=cls, sample={"population": "cancelled writes", "mode": mode, "len": ln, "chunks": lens[:6],
                                           "cancelled_lens": [len(drv_bytes(c[1])) for c in cancels],
                                           "result": ev.variant(w)} if i % 50 == 0 else None)
        det = {"steps": [[mode, req]], "response": w}
        if ev.is_panic(w) or ev.is_hang(w) or "died" in w:
            ctx.violation(f"cancelled-write|{mode}|{ev.variant(w)}",
                          f"writer used after a cancelled write ({mode}): {ev.brief(w)}", det)
            continue
        probs = ref.check_content_tree(cache)
        ctx.count("content_area_inspections")
        if probs:
            ctx.violation(f"cancelled-write|content-area|{mode}|{'declared' if opts else 'plain'}",
                          f"after a writer with a cancelled write ({mode}, final {req['final']}, result {ev.variant(w)}): {probs[0]}", det)
            continue
        if ev.is_ok(w) and w["ok"].get("sri"):
            rd = ctx.call(mode, {"op": "read_hash", "cache": cache, "sri": w["ok"]["sri"]})
            if not ev.is_ok(rd):
                ctx.violation(f"cancelled-write|returned-address-unreadable|{mode}",
                              f"commit after a cancelled write returned {w['ok']['sri'][:30]} but read_hash gives {ev.brief(rd)}", det)
        if ev.is_ok(pr):
            rd = ctx.call("sync@astd", {"op": "read", "cache": cache, "key": "stored-before"})
            if not ev.is_ok(rd) or ev_data(rd) != prior:
                ctx.violation(f"cancelled-write|stored-content-lost|{mode}",
                              f"content stored before a writer with a cancelled write is no longer readable: {ev.brief(rd)}", det)
        ctx.rm(cache)


def drv_bytes(d):
    from . import drv
    try:
        return drv.data_bytes(d)
    except Exception:
        return b""
