"""Independent reference implementation of the cacache on-disk format
(index-v5 / content-v2). Python stdlib only; shares no code with the crate."""
import base64
import hashlib
import json
import os

ALGOS = ["sha512", "sha384", "sha256", "sha1", "xxh3"]  # ssri strength order
HASHLIB_ALGOS = ["sha512", "sha384", "sha256", "sha1"]
ALGO_LEN = {"sha512": 64, "sha384": 48, "sha256": 32, "sha1": 20, "xxh3": 16}


def digest(algo, data):
    return hashlib.new(algo, data).digest()


def sri(algo, data):
    """SRI string of `data` (sha* only)."""
    return algo + "-" + base64.b64encode(digest(algo, data)).decode()


def sri_from_hex(algo, hexd):
    return algo + "-" + base64.b64encode(bytes.fromhex(hexd)).decode()


def sri_parse(s):
    """'sha256-b64 sha1-b64' -> [(algo, raw digest bytes)] sorted strongest first."""
    out = []
    for part in s.split():
        algo, b64 = part.split("-", 1)
        b64 = b64.split("?", 1)[0]
        out.append((algo, base64.b64decode(b64)))
    # ssri orders hashes by algorithm only (Hash::cmp) with a stable sort: among hashes of one algorithm the listing
    # order decides
    out.sort(key=lambda h: ALGOS.index(h[0]))
    return out


def sri_address(s):
    """(algo, hex) the library derives the content path from: strongest hash."""
    algo, raw = sri_parse(s)[0]
    return algo, raw.hex()


def bucket_rel(key):
    h = hashlib.sha1(key.encode("utf-8")).hexdigest()
    return os.path.join("index-v5", h[0:2], h[2:4], h[4:])


def bucket_path(cache, key):
    return os.path.join(cache, bucket_rel(key))


def content_rel(algo, hexd):
    return os.path.join("content-v2", algo, hexd[0:2], hexd[2:4], hexd[4:])


def content_path(cache, algo, hexd):
    return os.path.join(cache, content_rel(algo, hexd))


def content_path_sri(cache, s):
    a, h = sri_address(s)
    return content_path(cache, a, h)


# ------------------------------------------------------------------ records

def entry_json(key, integrity, time, size, metadata=None, raw_metadata=None, style=0):
    """JSON text of one record. style 0 = the library's own spelling
    (serde field order, compact); other styles are different but legal
    spellings used when the reference implementation writes caches."""
    obj = {
        "key": key,
        "integrity": integrity,
        "time": time,
        "size": size,
        "metadata": metadata,
        "raw_metadata": list(raw_metadata) if raw_metadata is not None else None,
    }
    if style == 0:
        return json.dumps(obj, separators=(",", ":"), ensure_ascii=False)
    if style == 1:  # ascii escapes, same order
        return json.dumps(obj, separators=(",", ":"), ensure_ascii=True)
    if style == 2:  # reversed field order
        return json.dumps(dict(reversed(list(obj.items()))), separators=(",", ":"), ensure_ascii=False)
    if style == 3:  # sorted keys, spaces after separators
        return json.dumps(obj, sort_keys=True, ensure_ascii=True)
    raise ValueError(style)


def record_bytes(js):
    """'\\n' + sha256hex(json) + '\\t' + json"""
    b = js.encode("utf-8")
    return b"\n" + hashlib.sha256(b).hexdigest().encode() + b"\t" + b


class _Dup(Exception):
    pass


def _no_dup(pairs):
    d = {}
    for k, v in pairs:
        d[k] = v
    return _Pairs(pairs, d)


class _Pairs(dict):
    def __init__(self, pairs, d):
        super().__init__(d)
        self.pairs = pairs


def _plain(v):
    if isinstance(v, _Pairs):
        return {k: _plain(x) for k, x in v.items()}
    if isinstance(v, list):
        return [_plain(x) for x in v]
    return v


def _bad_const(x):
    raise ValueError("non-JSON constant " + x)


FIELDS = ["key", "integrity", "time", "size", "metadata", "raw_metadata"]


def decode_record_json(text):
    """Parse one record's JSON text into an entry dict, or None if it is not a
    valid record (mirrors what a strict typed decoder accepts)."""
    try:
        v = json.loads(text, object_pairs_hook=_no_dup, parse_constant=_bad_const)
    except (ValueError, RecursionError):
        return None
    if isinstance(v, list):
        if len(v) != 6:
            return None
        v = _Pairs(list(zip(FIELDS, v)), dict(zip(FIELDS, v)))
    if not isinstance(v, _Pairs):
        return None
    seen = set()
    for k, _ in v.pairs:
        if k in FIELDS:
            if k in seen:
                return None  # duplicate field
            seen.add(k)
    key = v.get("key")
    if not isinstance(key, str) or "key" not in v:
        return None
    integ = v.get("integrity")
    if integ is not None and not isinstance(integ, str):
        return None
    t = v.get("time")
    if isinstance(t, bool) or not isinstance(t, int) or t < 0 or t >= 1 << 128 or "time" not in v:
        return None
    sz = v.get("size")
    if isinstance(sz, bool) or not isinstance(sz, int) or sz < 0 or sz >= 1 << 64 or "size" not in v:
        return None
    if "metadata" not in v:
        return None
    raw = v.get("raw_metadata")
    if raw is not None:
        if not isinstance(raw, list):
            return None
        for x in raw:
            if isinstance(x, bool) or not isinstance(x, int) or not (0 <= x <= 255):
                return None
        raw = bytes(raw)
    return {"key": key, "integrity": integ, "time": t, "size": sz,
            "metadata": _plain(v.get("metadata")), "raw_metadata": raw}


def parse_bucket(data, variants=False):
    """Parse raw bucket bytes into the list of valid entries, in file order.

    With variants=True returns (strict, lenient): `lenient` additionally
    accepts a line whose only defect is one trailing '\\r' (line readers strip
    it); lines that differ between the two are the "either" cases."""
    strict, lenient = [], []
    for line in data.split(b"\n"):
        for mode, acc in (("strict", strict), ("lenient", lenient)):
            ln = line
            if mode == "lenient" and ln.endswith(b"\r"):
                ln = ln[:-1]
            try:
                txt = ln.decode("utf-8")
            except UnicodeDecodeError:
                continue
            parts = txt.split("\t")
            if len(parts) != 2:
                continue
            h, js = parts
            if hashlib.sha256(js.encode("utf-8")).hexdigest() != h:
                continue
            e = decode_record_json(js)
            if e is not None:
                acc.append(e)
    return (strict, lenient) if variants else strict


def fold(entries, key):
    """Last record for `key` wins; integrity None = removed."""
    cur = None
    for e in entries:
        if e["key"] == key:
            cur = e if e["integrity"] is not None else None
    return cur


def fold_all(entries):
    cur = {}
    for e in entries:
        if e["integrity"] is None:
            cur.pop(e["key"], None)
        else:
            cur[e["key"]] = e
    return cur


def read_index(cache):
    """All valid entries per bucket file: {relpath: [entries]}."""
    out = {}
    root = os.path.join(cache, "index-v5")
    for dp, _dn, fn in os.walk(root):
        for f in fn:
            p = os.path.join(dp, f)
            with open(p, "rb") as fh:
                out[os.path.relpath(p, cache)] = parse_bucket(fh.read())
    return out


def lookup(cache, key):
    try:
        with open(bucket_path(cache, key), "rb") as f:
            data = f.read()
    except FileNotFoundError:
        return None
    return fold(parse_bucket(data), key)


def listing(cache):
    out = {}
    for _rel, entries in read_index(cache).items():
        out.update(fold_all(entries))
    return out


def read_content(cache, s):
    """Bytes stored for an SRI string, verified with hashlib when possible.
    Returns (bytes|None, verified: True|False|None)."""
    a, h = sri_address(s)
    try:
        with open(content_path(cache, a, h), "rb") as f:
            b = f.read()
    except (FileNotFoundError, IsADirectoryError, NotADirectoryError):
        return None, None
    if a in HASHLIB_ALGOS:
        return b, hashlib.new(a, b).hexdigest() == h
    return b, None


def write_content(cache, algo, data):
    h = hashlib.new(algo, data).hexdigest()
    p = content_path(cache, algo, h)
    os.makedirs(os.path.dirname(p), exist_ok=True)
    with open(p, "wb") as f:
        f.write(data)
    return sri_from_hex(algo, h)


def append_record(cache, key, js, bucket_key=None):
    """Append a record for `key` (JSON text js) to the bucket of bucket_key or key."""
    p = bucket_path(cache, bucket_key if bucket_key is not None else key)
    os.makedirs(os.path.dirname(p), exist_ok=True)
    with open(p, "ab") as f:
        f.write(record_bytes(js))
    return p


def content_census(cache):
    """{relpath: bytes} of every regular file / symlink under content-v2."""
    out = {}
    root = os.path.join(cache, "content-v2")
    for dp, _dn, fn in os.walk(root):
        for f in fn:
            p = os.path.join(dp, f)
            try:
                with open(p, "rb") as fh:
                    out[os.path.relpath(p, cache)] = fh.read()
            except OSError:
                out[os.path.relpath(p, cache)] = None
    return out


def check_content_tree(cache, xxh3_known=None):
    """Every file under content-v2 must sit at content-v2/<algo>/xx/yy/<rest>
    and (sha*) hash to its own path. Returns list of problem strings."""
    probs = []
    root = os.path.join(cache, "content-v2")
    for dp, dn, fn in os.walk(root):
        for f in fn:
            p = os.path.join(dp, f)
            rel = os.path.relpath(p, root).split(os.sep)
            if len(rel) != 4 or rel[0] not in ALGOS or len(rel[1]) != 2 or len(rel[2]) != 2:
                probs.append(f"misplaced content file {os.path.relpath(p, cache)}")
                continue
            algo, hexd = rel[0], rel[1] + rel[2] + rel[3]
            if len(hexd) != 2 * ALGO_LEN[algo] or any(c not in "0123456789abcdef" for c in hexd):
                probs.append(f"content file name is not a {algo} digest: {os.path.relpath(p, cache)}")
                continue
            try:
                with open(p, "rb") as fh:
                    b = fh.read()
            except OSError as e:
                probs.append(f"unreadable content file {os.path.relpath(p, cache)}: {e}")
                continue
            if algo in HASHLIB_ALGOS:
                if hashlib.new(algo, b).hexdigest() != hexd:
                    probs.append(f"content file does not match its address: {os.path.relpath(p, cache)} "
                                 f"(len {len(b)})")
            elif xxh3_known is not None:
                want = xxh3_known.get(hexd)
                if want is None or want != b:
                    probs.append(f"xxh3 content file differs from the data known for it: "
                                 f"{os.path.relpath(p, cache)}")
    return probs


def check_bucket_grammar(data):
    """A bucket produced only by successful appends is a sequence of
    '\\n' hex64 '\\t' one-line-json. Returns (records, problems)."""
    probs = []
    recs = []
    if data == b"":
        return recs, probs
    if not data.startswith(b"\n"):
        probs.append("bucket does not start with a newline")
    lines = data.split(b"\n")
    for i, ln in enumerate(lines[1:] if data.startswith(b"\n") else lines):
        try:
            txt = ln.decode("utf-8")
        except UnicodeDecodeError:
            probs.append(f"line {i}: not UTF-8")
            continue
        parts = txt.split("\t")
        if len(parts) != 2:
            probs.append(f"line {i}: expected exactly one tab, got {len(parts) - 1}")
            continue
        h, js = parts
        if len(h) != 64 or any(c not in "0123456789abcdef" for c in h):
            probs.append(f"line {i}: checksum field is not 64 lowercase hex digits")
            continue
        if hashlib.sha256(js.encode("utf-8")).hexdigest() != h:
            probs.append(f"line {i}: checksum does not match the JSON text")
            continue
        try:
            obj = json.loads(js, object_pairs_hook=lambda p: p)
        except ValueError:
            probs.append(f"line {i}: JSON does not parse")
            continue
        if not isinstance(obj, list) or [k for k, _ in obj] != FIELDS:
            probs.append(f"line {i}: JSON object fields are {[k for k, _ in obj] if isinstance(obj, list) else type(obj)}")
            continue
        e = decode_record_json(js)
        if e is None:
            probs.append(f"line {i}: record fields have wrong types")
            continue
        recs.append(e)
    return recs, probs
