"""Driver processes: start a cdrv variant, send requests, read responses with a
watchdog. No oracle lives here."""
import json
import os
import select
import signal
import subprocess
import threading
import time

from . import build

MODES = {
    "sync@astd": ("astd", "sync"),
    "async@astd": ("astd", "async"),
    "sync@tok": ("tok", "sync"),
    "async@tok": ("tok", "async"),
}
QUICK_MODES = ["sync@astd", "async@astd", "async@tok"]
ALL_MODES = ["sync@astd", "async@astd", "sync@tok", "async@tok"]


class DriverHang(Exception):
    def __init__(self, req, cpu_s, wall_s):
        super().__init__(f"driver did not answer within {wall_s:.1f}s (cpu {cpu_s:.1f}s): {str(req)[:300]}")
        self.req, self.cpu_s, self.wall_s = req, cpu_s, wall_s


class DriverDied(Exception):
    def __init__(self, req, rc, stderr):
        super().__init__(f"driver died rc={rc}: {str(req)[:300]} :: {stderr[-500:]}")
        self.req, self.rc, self.stderr = req, rc, stderr


def _cpu_seconds(pid):
    """utime+stime of a process and all its threads, in seconds."""
    try:
        with open(f"/proc/{pid}/stat") as f:
            parts = f.read().rsplit(")", 1)[1].split()
        return (int(parts[11]) + int(parts[12])) / os.sysconf("SC_CLK_TCK")
    except Exception:
        return 0.0


class Driver:
    def __init__(self, variant, outdir=None, env=None, cwd=None, wrapper=None, binary=None):
        self.variant = variant
        self.bin = binary or build.ensure(variant)
        e = dict(os.environ)
        e.pop("RUST_BACKTRACE", None)
        if outdir:
            os.makedirs(outdir, exist_ok=True)
            e["CV_OUT_DIR"] = outdir
        if env:
            e.update(env)
        self.errpath = None
        self._errf = None
        if outdir:
            self.errpath = os.path.join(outdir, f"stderr-{id(self)}.txt")
            self._errf = open(self.errpath, "wb")
        self.p = subprocess.Popen((wrapper or []) + [self.bin], stdin=subprocess.PIPE,
                                  stdout=subprocess.PIPE,
                                  stderr=self._errf or subprocess.DEVNULL,
                                  env=e, cwd=cwd, start_new_session=True)
        self.buf = b""
        self.nreq = 0
        self.lock = threading.Lock()

    # -- low level
    def _stderr(self):
        try:
            if self.errpath:
                with open(self.errpath, "rb") as f:
                    return f.read().decode("utf-8", "replace")
        except Exception:
            pass
        return ""

    def _readline(self, deadline, req):
        fd = self.p.stdout.fileno()
        while b"\n" not in self.buf:
            left = deadline - time.time()
            if left <= 0:
                cpu = _cpu_seconds(self.p.pid)
                self.kill()
                raise DriverHang(req, cpu, 0.0)
            r, _, _ = select.select([fd], [], [], min(left, 1.0))
            if not r:
                continue
            chunk = os.read(fd, 1 << 16)
            if not chunk:
                rc = self.p.wait()
                raise DriverDied(req, rc, self._stderr())
            self.buf += chunk
        line, self.buf = self.buf.split(b"\n", 1)
        return line

    def call(self, req, timeout=60.0):
        with self.lock:
            self.nreq += 1
            t0 = time.time()
            cpu0 = _cpu_seconds(self.p.pid)
            data = (json.dumps(req) + "\n").encode()
            try:
                self.p.stdin.write(data)
                self.p.stdin.flush()
            except (BrokenPipeError, OSError):
                rc = self.p.wait()
                raise DriverDied(req, rc, self._stderr())
            try:
                line = self._readline(t0 + timeout, req)
            except DriverHang as h:
                h.cpu_s -= cpu0
                h.wall_s = time.time() - t0
                raise
            return json.loads(line)

    def batch(self, reqs, timeout=120.0):
        """Pipelined execution of many requests; returns responses in order."""
        with self.lock:
            t0 = time.time()
            cpu0 = _cpu_seconds(self.p.pid)
            payload = "".join(json.dumps(r) + "\n" for r in reqs).encode()
            err = []

            def feed():
                try:
                    self.p.stdin.write(payload)
                    self.p.stdin.flush()
                except Exception as e:  # noqa
                    err.append(e)

            th = threading.Thread(target=feed, daemon=True)
            th.start()
            out = []
            for r in reqs:
                self.nreq += 1
                try:
                    line = self._readline(t0 + timeout, r)
                except DriverHang as h:
                    h.cpu_s -= cpu0
                    h.wall_s = time.time() - t0
                    h.done = out
                    raise
                except DriverDied as d:
                    d.done = out
                    raise
                out.append(json.loads(line))
            th.join()
            return out

    def alive(self):
        return self.p.poll() is None

    def kill(self):
        try:
            os.killpg(self.p.pid, signal.SIGKILL)
        except Exception:
            pass
        try:
            self.p.kill()
        except Exception:
            pass
        try:
            self.p.wait(timeout=5)
        except Exception:
            pass

    def close(self):
        try:
            if self.p.poll() is None:
                try:
                    self.p.stdin.close()
                except Exception:
                    pass
                try:
                    self.p.wait(timeout=5)
                except Exception:
                    self.kill()
        finally:
            for f in (self.p.stdout, self._errf):
                try:
                    if f:
                        f.close()
                except Exception:
                    pass


def run_script(variant, reqs, outdir, timeout=300.0, wrapper=None, env=None, binary=None, cwd=None):
    """Run a request list through `cdrv run script out` in a fresh process.
    Returns (responses, rc, stderr_text, timed_out)."""
    os.makedirs(outdir, exist_ok=True)
    tag = f"{os.getpid()}-{threading.get_ident()}-{time.time_ns()}"
    script = os.path.join(outdir, f"script-{tag}.jsonl")
    out = os.path.join(outdir, f"resp-{tag}.jsonl")
    with open(script, "w") as f:
        for r in reqs:
            f.write(json.dumps(r) + "\n")
    e = dict(os.environ)
    e["CV_OUT_DIR"] = outdir
    if env:
        e.update(env)
    b = binary or build.ensure(variant)
    p = subprocess.Popen((wrapper or []) + [b, "run", script, out], stdout=subprocess.PIPE,
                         stderr=subprocess.PIPE, env=e, start_new_session=True, cwd=cwd)
    timed_out = False
    try:
        so, se = p.communicate(timeout=timeout)
    except subprocess.TimeoutExpired:
        timed_out = True
        try:
            os.killpg(p.pid, signal.SIGKILL)
        except Exception:
            pass
        so, se = p.communicate()
    resps = []
    try:
        with open(out) as f:
            for line in f:
                line = line.strip()
                if line:
                    try:
                        resps.append(json.loads(line))
                    except Exception:
                        pass
    except FileNotFoundError:
        pass
    for x in (script, out):
        try:
            os.unlink(x)
        except Exception:
            pass
    return resps, p.returncode, se.decode("utf-8", "replace"), timed_out


class Pool:
    """One long-lived driver per build variant, restarted on demand."""

    def __init__(self, outdir, env=None):
        self.outdir = outdir
        self.env = env
        self.d = {}

    def get(self, variant):
        d = self.d.get(variant)
        if d is None or not d.alive():
            if d is not None:
                d.close()
            d = Driver(variant, outdir=self.outdir, env=self.env)
            self.d[variant] = d
        return d

    def call(self, mode, req, timeout=60.0):
        variant, m = MODES[mode]
        r = dict(req)
        r["mode"] = m
        return self.get(variant).call(r, timeout=timeout)

    def batch(self, mode, reqs, timeout=180.0):
        variant, m = MODES[mode]
        rs = []
        for q in reqs:
            q = dict(q)
            q.setdefault("mode", m)
            rs.append(q)
        return self.get(variant).batch(rs, timeout=timeout)

    def restart(self, variant):
        d = self.d.pop(variant, None)
        if d:
            d.kill()
            d.close()

    def close(self):
        for d in self.d.values():
            d.close()
        self.d = {}


def data_bytes(v):
    """Decode a driver data value ({"hex"|"file", "len"}) into bytes; removes result files."""
    if v is None:
        return None
    if "hex" in v:
        return bytes.fromhex(v["hex"])
    p = v["file"]
    with open(p, "rb") as f:
        b = f.read()
    try:
        os.unlink(p)
    except Exception:
        pass
    return b
