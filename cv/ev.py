"""Run context: scratch space, driver pool, coverage counters, violations,
known findings, evidence file."""
import fnmatch
import hashlib
import json
import os
import random
import shutil
import sys
import tempfile
import time
import collections

from . import drv

VERIF = os.path.dirname(os.path.dirname(os.path.abspath(__file__)))
EVIDENCE_DIR = os.environ.get("CV_EVIDENCE_DIR") or os.path.join(VERIF, "evidence")
REPLAY_DIR = os.environ.get("CV_REPLAY_DIR") or os.path.join(VERIF, "out", "replays")
KNOWN_FILE = os.path.join(VERIF, "known_findings.json")

LEVELS = {
    "C01": "fault_enumeration", "C02": "exploration", "C03": "fault_enumeration",
    "C04": "fault_enumeration", "C05": "exploration", "C06": "fault_enumeration",
    "C07": "exploration", "C08": "exploration", "C09": "exploration", "C10": "exploration",
    "C11": "exploration", "C12": "exploration", "C13": "fault_enumeration",
    "C14": "exploration", "C15": "exploration", "C16": "exploration", "C17": "exploration",
    "C18": "fault_enumeration", "C19": "exploration", "C20": "exploration",
}


def load_known():
    try:
        with open(KNOWN_FILE) as f:
            return json.load(f).get("findings", [])
    except FileNotFoundError:
        return []


def jsonable(x):
    if isinstance(x, bytes):
        return {"hex": x[:64].hex(), "len": len(x)} if len(x) > 64 else {"hex": x.hex()}
    if isinstance(x, dict):
        return {str(k): jsonable(v) for k, v in x.items()}
    if isinstance(x, (list, tuple, set, frozenset)):
        return [jsonable(v) for v in x]
    if isinstance(x, (str, int, float, bool)) or x is None:
        return x
    return repr(x)


class Ctx:
    def __init__(self, prop, tier, seed):
        self.prop = prop
        self.tier = tier
        self.seed = seed
        self.level = LEVELS[prop]
        self.t0 = time.time()
        base = "/dev/shm" if os.path.isdir("/dev/shm") else None
        self.scratch = tempfile.mkdtemp(prefix=f"cv-{prop}-", dir=base)
        self.outdir = os.path.join(self.scratch, "out")
        os.makedirs(self.outdir)
        # second file-system configuration: in the thorough tier every other scratch cache lives on the disk-backed
        # file system under /tmp (ext4/overlay here) instead of tmpfs
        self.scratch2 = None
        if tier != "quick" and os.environ.get("CV_NO_SECOND_FS") is None:
            try:
                self.scratch2 = tempfile.mkdtemp(prefix=f"cv-{prop}-", dir="/tmp")
            except OSError:
                self.scratch2 = None
        self.pool = drv.Pool(self.outdir)
        self.rng = random.Random(f"{seed}:{prop}")
        self.counters = collections.Counter()
        self.distinct = set()
        self.samples = []
        self.extra = {}
        self.violations = []       # unknown (failing) violations
        self.known_hits = collections.OrderedDict()
        self.inconclusive = []
        self.fatal = False
        self.known = [k for k in load_known() if k.get("property") == prop and k.get("status") == "open"]
        self.assumptions = []
        self.rule = ""
        self.exhaustive = None
        self._ncache = 0
        self._printed = set()
        self.quick = tier == "quick"

    # ------------------------------------------------------------ scratch
    def _base(self):
        if self.scratch2 and self._ncache % 2 == 1:
            self.counters["scratch_dirs_on_disk_fs"] += 1
            return self.scratch2
        self.counters["scratch_dirs_on_tmpfs"] += 1
        return self.scratch

    def new_cache(self, name=None):
        self._ncache += 1
        d = os.path.join(self._base(), name or f"c{self._ncache}")
        os.makedirs(d, exist_ok=True)
        return os.path.join(d, "cache")

    def new_dir(self, name=None):
        self._ncache += 1
        d = os.path.join(self._base(), name or f"d{self._ncache}")
        os.makedirs(d, exist_ok=True)
        return d

    def rm(self, path):
        shutil.rmtree(path, ignore_errors=True)

    def datafile(self, data):
        """Park a byte string in a file (for request payloads > 2 KiB)."""
        h = hashlib.sha1(data).hexdigest()
        p = os.path.join(self.outdir, f"in-{h}-{len(data)}.bin")
        if not os.path.exists(p):
            with open(p, "wb") as f:
                f.write(data)
        return p

    def data(self, b):
        if len(b) <= 2048:
            return {"hex": b.hex()}
        return {"file": self.datafile(b)}

    # ------------------------------------------------------------ driver access
    def call(self, mode, req, timeout=20.0):
        """Execute one request; a hang or a dead driver becomes a synthetic
        response ({"hang":..} / {"died":..}) instead of an exception."""
        try:
            return self.pool.call(mode, req, timeout=timeout)
        except drv.DriverHang as h:
            self.count("driver_hangs")
            self.pool.restart(drv.MODES[mode][0])
            hang = {"hang": {"cpu_s": round(h.cpu_s, 2), "wall_s": round(h.wall_s, 2)}}
            if h.cpu_s < 0.05 * h.wall_s and not getattr(self, "_no_hang_retry", False):
                # the process did not run at all while we waited (a spinning one would have burnt CPU): before this
                # counts as "does not terminate" the very same request gets a second, longer chance on a fresh driver.
                # A wall-clock watchdog on a loaded machine is not a verdict; a stall that does not reproduce is
                # reported as inconclusive, one that does is a hang.
                try:
                    r = self.pool.call(mode, req, timeout=3 * timeout)
                except drv.DriverHang:
                    self.pool.restart(drv.MODES[mode][0])
                    return hang
                except drv.DriverDied as d:
                    self.pool.restart(drv.MODES[mode][0])
                    return {"died": {"rc": d.rc, "stderr": d.stderr[-1500:]}}
                self.count("stalls_not_reproduced")
                self.inconc(f"{req.get('op')} in {mode} did not answer for {h.wall_s:.0f}s using {h.cpu_s:.2f}s of CPU, and answered at "
                            f"once when repeated on a fresh driver: a stall of the machine, not counted as a hang")
                return r
            return hang
        except drv.DriverDied as d:
            self.count("driver_deaths")
            self.pool.restart(drv.MODES[mode][0])
            return {"died": {"rc": d.rc, "stderr": d.stderr[-1500:]}}

    def batch(self, mode, reqs, timeout=None):
        """Pipelined execution of a request list in one mode, surviving hangs."""
        out = []
        rest = list(reqs)
        stalled_once = False
        while rest:
            to = timeout or (20.0 + 0.05 * len(rest))
            try:
                out.extend(self.pool.batch(mode, rest, timeout=to))
                break
            except drv.DriverHang as h:
                done = getattr(h, "done", [])
                out.extend(done)
                self.count("driver_hangs")
                self.pool.restart(drv.MODES[mode][0])
                if h.cpu_s < 0.05 * h.wall_s and not stalled_once:
                    # nothing ran while we waited: the unanswered request gets one more chance (see call())
                    stalled_once = True
                    self.count("stalls_retried")
                    self.inconc(f"{rest[len(done)].get('op')} in {mode} did not answer for {h.wall_s:.0f}s using {h.cpu_s:.2f}s of CPU; "
                                f"repeated on a fresh driver")
                    rest = rest[len(done):]
                    continue
                out.append({"hang": {"cpu_s": round(h.cpu_s, 2), "wall_s": round(h.wall_s, 2)}})
                rest = rest[len(done) + 1:]
            except drv.DriverDied as d:
                done = getattr(d, "done", [])
                out.extend(done)
                out.append({"died": {"rc": d.rc, "stderr": d.stderr[-1500:]}})
                self.count("driver_deaths")
                self.pool.restart(drv.MODES[mode][0])
                rest = rest[len(done) + 1:]
        return out

    # ------------------------------------------------------------ coverage
    def count(self, name, n=1):
        self.counters[name] += n

    def case(self, distinct_key=None, sample=None, n=1):
        """One judged evaluation; distinct_key marks it distinct & non-trivial."""
        self.counters["evaluations"] += n
        if distinct_key is not None:
            self.distinct.add(distinct_key)
        if sample is not None and len(self.samples) < 12:
            self.samples.append(jsonable(sample))

    # ------------------------------------------------------------ verdicts
    def violation(self, signature, what, detail=None):
        """Report a violation. `signature` is the exact identity used for
        known-finding matching: <entry point/input class/observed class>."""
        sig = f"{self.prop}|{signature}"
        for k in self.known:
            if fnmatch.fnmatchcase(sig, k["signature"]):
                ent = self.known_hits.setdefault(k["signature"], {"count": 0, "what": k.get("what", what)})
                ent["count"] += 1
                if k["signature"] not in self._printed:
                    self._printed.add(k["signature"])
                    print(f"KNOWN-FINDING: property={self.prop} {k.get('what', what)} [{k['signature']}]", flush=True)
                return False
        rec = {"property": self.prop, "signature": sig, "what": what, "seed": self.seed,
               "tier": self.tier, "detail": jsonable(detail)}
        self.violations.append(rec)
        if sig not in self._printed:
            self._printed.add(sig)
            os.makedirs(REPLAY_DIR, exist_ok=True)
            dig = hashlib.sha1((sig + json.dumps(rec["detail"], sort_keys=True, default=str)).encode()).hexdigest()[:12]
            path = os.path.join(REPLAY_DIR, f"{self.prop}-{dig}.json")
            with open(path, "w") as f:
                json.dump(rec, f, indent=1, default=str)
            print(f"VIOLATION property={self.prop} replay={path}", flush=True)
            print(f"  what: {what}\n  signature: {sig}", flush=True)
        return True

    def inconc(self, why, fatal=False):
        self.inconclusive.append(why)
        print(f"INCONCLUSIVE: property={self.prop} {why}", flush=True)
        if fatal:
            self.fatal = True

    # ------------------------------------------------------------ finish
    def finish(self):
        self.pool.close()
        if not self.samples:
            # every check passes samples for some of its cases; fall back to the distinct-case keys themselves
            self.samples = [jsonable(k) for k in list(self.distinct)[:8]]
        cov = {
            "evaluations": int(self.counters.get("evaluations", 0)),
            "distinct_nontrivial": len(self.distinct),
            "rule": self.rule,
            "samples": self.samples,
            "counters": {k: v for k, v in sorted(self.counters.items())},
        }
        if self.exhaustive is not None:
            cov["exhaustive"] = bool(self.exhaustive)
        cov.update(jsonable(self.extra))
        if self.inconclusive:
            cov["inconclusive"] = self.inconclusive[:50]
        if self.known_hits:
            cov["known_findings_hit"] = self.known_hits
        ev = {
            "property_id": self.prop,
            "tier": self.tier,
            "seed": int(self.seed),
            "level": self.level,
            "coverage": cov,
            "assumptions": self.assumptions,
            "wall_s": round(time.time() - self.t0, 2),
            "violations": len(self.violations),
        }
        os.makedirs(EVIDENCE_DIR, exist_ok=True)
        tmp = os.path.join(EVIDENCE_DIR, f".{self.prop}.json.tmp")
        with open(tmp, "w") as f:
            json.dump(ev, f, indent=1, default=str)
        os.replace(tmp, os.path.join(EVIDENCE_DIR, f"{self.prop}.json"))
        shutil.rmtree(self.scratch, ignore_errors=True)
        if self.scratch2:
            shutil.rmtree(self.scratch2, ignore_errors=True)
        n = cov["evaluations"]
        print(f"[{self.prop}] tier={self.tier} seed={self.seed} evaluations={n} "
              f"distinct={cov['distinct_nontrivial']} violations={len(self.violations)} "
              f"known={sum(v['count'] for v in self.known_hits.values())} "
              f"inconclusive={len(self.inconclusive)} wall={ev['wall_s']}s", flush=True)
        if self.violations:
            return 1
        if self.fatal or n == 0 or cov["distinct_nontrivial"] < 2:
            if not self.fatal:
                print(f"INCONCLUSIVE: property={self.prop} the monitors observed too little "
                      f"(evaluations={n}, distinct={cov['distinct_nontrivial']})", flush=True)
            return 2
        return 0

    def abort_cleanup(self):
        try:
            self.pool.close()
        except Exception:
            pass
        shutil.rmtree(self.scratch, ignore_errors=True)
        if getattr(self, "scratch2", None):
            shutil.rmtree(self.scratch2, ignore_errors=True)


# ---------------------------------------------------------------- response helpers

def is_ok(r):
    return "ok" in r


def is_err(r, variant=None):
    if "err" not in r:
        return False
    return variant is None or r["err"].get("variant") == variant


def is_panic(r):
    return "panic" in r or "bg_panic" in r or "died" in r


def is_hang(r):
    """A definite hang: busy loop (>= 10 s CPU). Zero-CPU stalls need re-runs."""
    return "hang" in r and r["hang"].get("cpu_s", 0) >= 10.0


def variant(r):
    if "ok" in r:
        return "Ok"
    if "panic" in r:
        return "PANIC"
    if "err" in r:
        return r["err"].get("variant", "?")
    if "hang" in r:
        return "HANG"
    if "died" in r:
        return "DIED"
    return "?"


def brief(r):
    """Short printable form of a response."""
    if "ok" in r:
        s = json.dumps(r["ok"], default=str)
        return "Ok " + (s if len(s) < 200 else s[:200] + "...")
    if "panic" in r:
        return "PANIC " + str(r["panic"].get("msg"))[:200]
    if "hang" in r or "died" in r:
        return json.dumps(r)[:300]
    if "err" in r:
        e = r["err"]
        return f"Err {e.get('variant')} {e.get('kind', '')} {str(e.get('msg', ''))[:120]} {e.get('stage', '')}"
    return str(r)[:200]
