"""python3 -m cv.seedcheck <worktree> <outdir> [features]  — confirm a sub-agent's seeded change:
existing tests pass with it, the demonstration fails with it and passes without it."""
import os
import shutil
import subprocess
import sys


def run(cmd, cwd):
    p = subprocess.run(cmd, cwd=cwd, stdout=subprocess.PIPE, stderr=subprocess.STDOUT, text=True)
    return p.returncode, p.stdout


def main(wt, out, features=""):
    patch = os.path.join(out, "patch.diff")
    demo = os.path.join(out, "seed_demo.rs")
    # features: a feature list ("link_to") or, prefixed with "args:", raw cargo arguments for the demo
    if features.startswith("args:"):
        feat = features[5:].split()
    else:
        feat = ["--features", features] if features else []
    res = {}
    # start from a clean tree
    run(["git", "checkout", "--", "."], wt)
    shutil.rmtree(os.path.join(wt, "tests"), ignore_errors=True)
    rc, o = run(["git", "apply", "--check", patch], wt)
    res["patch_applies"] = rc == 0
    if rc != 0:
        print(o[-800:])
        print(res)
        return res
    os.makedirs(os.path.join(wt, "tests"))
    shutil.copy(demo, os.path.join(wt, "tests", "seed_demo.rs"))
    rc, o = run(["cargo", "test", "--offline", "--test", "seed_demo"] + feat, wt)
    res["demo_passes_without_change"] = rc == 0
    if rc != 0:
        print("DEMO WITHOUT CHANGE:", o[-1200:])
    run(["git", "apply", patch], wt)
    rc, o = run(["cargo", "test", "--offline", "--test", "seed_demo"] + feat, wt)
    res["demo_fails_with_change"] = rc != 0 and ("test result: FAILED" in o or "panicked" in o)
    if rc == 0:
        print("DEMO WITH CHANGE passed?!", o[-800:])
    shutil.rmtree(os.path.join(wt, "tests"), ignore_errors=True)
    rc, o = run(["cargo", "test", "--offline"], wt)
    res["suite_passes_with_change"] = rc == 0 and "warning: unused" not in o
    res["suite_lib_line"] = [l for l in o.splitlines() if l.startswith("test result")][:1]
    if rc != 0:
        print("SUITE WITH CHANGE:", o[-1500:])
    print(res)
    return res


if __name__ == "__main__":
    main(*sys.argv[1:])
