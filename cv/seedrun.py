"""python3 -m cv.seedrun <seeded-id> [Cxx ...]  — apply a seeded change to /repo, run checks, undo it.

Evidence and replay files of these runs go to a scratch directory, never to
/verif/evidence. /repo is restored with `git checkout -- .` in all cases."""
import json
import os
import subprocess
import sys
import tempfile
import time

VERIF = os.path.dirname(os.path.dirname(os.path.abspath(__file__)))


def main(argv):
    sid = argv[0]
    sdir = os.path.join(VERIF, "seeded", sid)
    patch = os.path.join(sdir, "patch.diff")
    checks = argv[1:] or [f"C{i:02d}" for i in range(1, 21)]
    dirty = subprocess.run(["git", "-C", "/repo", "status", "--porcelain", "--untracked-files=no"], stdout=subprocess.PIPE, text=True).stdout
    if dirty.strip():
        print("refusing: /repo has local modifications:\n" + dirty)
        return 2
    scratch = tempfile.mkdtemp(prefix="cv-seedrun-")
    results = {}
    p = subprocess.run(["git", "-C", "/repo", "apply", patch], stdout=subprocess.PIPE, stderr=subprocess.STDOUT, text=True)
    if p.returncode != 0:
        print("patch does not apply:", p.stdout)
        return 2
    try:
        for c in checks:
            t0 = time.time()
            env = dict(os.environ, CV_EVIDENCE_DIR=os.path.join(scratch, "ev"), CV_REPLAY_DIR=os.path.join(scratch, "replays"),
                       VERIF_SEED=os.environ.get("VERIF_SEED", "1"))
            r = subprocess.run([os.path.join(VERIF, "cvrun"), c, "--tier", "quick"], env=env, stdout=subprocess.PIPE,
                               stderr=subprocess.STDOUT, text=True)
            viol = [l for l in r.stdout.splitlines() if l.startswith("VIOLATION property=")]
            what = [l.strip()[6:] for l in r.stdout.splitlines() if l.strip().startswith("what:")]
            sigs = sorted({l.strip()[11:] for l in r.stdout.splitlines() if l.strip().startswith("signature:")})
            results[c] = {"rc": r.returncode, "violations": len(viol), "first": what[0][:300] if what else "",
                          "signatures": sigs[:6], "wall_s": round(time.time() - t0, 1)}
            tag = "CAUGHT" if r.returncode == 1 and viol else ("silent" if r.returncode == 0 else f"rc={r.returncode}")
            print(f"[seedrun] {sid} {c}: {tag} ({len(viol)}) {what[0][:150] if what else ''}", flush=True)
            if r.returncode not in (0, 1):
                print(r.stdout[-1200:])
    finally:
        subprocess.run(["git", "-C", "/repo", "checkout", "--", "."], check=False)
        subprocess.run(["rm", "-rf", scratch], check=False)
    rp = os.path.join(sdir, "results.json")
    try:
        prev = json.load(open(rp)).get("results", {})
    except Exception:
        prev = {}
    prev.update(results)
    results = prev
    with open(rp, "w") as f:
        json.dump({"seed": sid, "repo_head": subprocess.run(["git", "-C", "/repo", "log", "--format=%h", "-1"], stdout=subprocess.PIPE, text=True).stdout.strip(),
                   "verif_seed": os.environ.get("VERIF_SEED", "1"), "results": results}, f, indent=1)
    return 0


if __name__ == "__main__":
    sys.exit(main(sys.argv[1:]))
