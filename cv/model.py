"""Sequential model of the cache API: the executable oracle.

State: index (key -> entry), buckets (keys whose bucket file exists),
content (sri address -> bytes). Where the property leaves an outcome open the
methods return a *set* of allowed result classes."""
import copy

from . import ref


class Model:
    def __init__(self):
        self.index = {}
        self.buckets = set()
        self.content = {}          # (algo, hex) -> bytes
        self.xxh3 = {}             # data -> sri string learnt from the library
        self.xxh3_rev = {}         # sri string -> data
        self.root_exists = False   # the cache directory itself has been created

    def clone(self):
        return copy.deepcopy(self)

    # ---------------------------------------------------------- addresses
    def expected_sri(self, algo, data):
        """SRI string the library must return, or None when only the library
        can tell (xxh3, not yet seen)."""
        if algo in ref.HASHLIB_ALGOS:
            return ref.sri(algo, data)
        return self.xxh3.get(bytes(data))

    def learn(self, algo, data, sri):
        """Record an xxh3 address. Returns a problem string if inconsistent."""
        if algo != "xxh3":
            return None
        data = bytes(data)
        old = self.xxh3.get(data)
        if old is not None and old != sri:
            return f"xxh3 address of identical data changed: {old} vs {sri}"
        other = self.xxh3_rev.get(sri)
        if other is not None and other != data:
            return f"xxh3 address {sri} returned for two different byte strings"
        if not sri.startswith("xxh3-"):
            return f"xxh3 write returned {sri}"
        self.xxh3[data] = sri
        self.xxh3_rev[sri] = data
        return None

    # ---------------------------------------------------------- mutations
    def store(self, sri, data):
        self.root_exists = True
        self.content[ref.sri_address(sri)] = bytes(data)

    def commit(self, key, sri, data, size=None, time=None, metadata=None, raw=None, window=None,
               recorded_sri=None):
        """A successful keyed write. time None => default (window = (ms0, ms1))."""
        self.store(sri, data)
        self.index[key] = {
            "key": key, "integrity": recorded_sri or sri, "time": time, "window": window,
            "size": len(data) if size is None else size,
            "metadata": metadata, "raw_metadata": raw,
        }
        self.buckets.add(key)

    def remove(self, key):
        self.root_exists = True
        self.index.pop(key, None)
        self.buckets.add(key)

    def remove_hash(self, sri):
        """Returns allowed result classes."""
        a = ref.sri_address(sri)
        if a in self.content:
            del self.content[a]
            return {"Ok"}
        return {"IoError"}

    def remove_fully(self, key, observed="Ok"):
        """`observed` selects the branch where the property leaves the outcome open."""
        e = self.index.get(key)
        if e is not None:
            a = ref.sri_address(e["integrity"])
            if a in self.content:
                del self.content[a]
                del self.index[key]
                self.buckets.discard(key)
                return {"Ok"}
            # entry present, content already gone: finishing the removal (Ok) or
            # refusing with unchanged state (IoError) are both acceptable
            if observed == "Ok":
                del self.index[key]
                self.buckets.discard(key)
            return {"Ok", "IoError"}
        if key in self.buckets:
            self.buckets.discard(key)
            return {"Ok"}
        return {"IoError"}

    def clear(self):
        self.index.clear()
        self.buckets.clear()
        self.content.clear()

    # ---------------------------------------------------------- queries
    def lookup(self, key):
        return self.index.get(key)

    def read(self, key):
        """('Ok', bytes) | ('EntryNotFound', None) | ('IoError', None)"""
        e = self.index.get(key)
        if e is None:
            return ("EntryNotFound", None)
        b = self.content.get(ref.sri_address(e["integrity"]))
        if b is None:
            return ("IoError", None)
        return ("Ok", b)

    def read_hash(self, sri):
        b = self.content.get(ref.sri_address(sri))
        if b is None:
            return ("IoError", None)
        return ("Ok", b)

    def exists(self, sri):
        return ref.sri_address(sri) in self.content

    def state_id(self):
        return (tuple(sorted((k, e["integrity"], e["size"]) for k, e in self.index.items())),
                tuple(sorted(self.content.keys())), tuple(sorted(self.buckets)))


def same_json(a, b):
    """Structural JSON equality: ints exact, floats by value, bool != int."""
    if isinstance(a, bool) or isinstance(b, bool):
        return isinstance(a, bool) and isinstance(b, bool) and a == b
    if isinstance(a, (int, float)) and isinstance(b, (int, float)):
        if isinstance(a, int) and isinstance(b, int):
            return a == b
        return float(a) == float(b) and (isinstance(a, float) == isinstance(b, float) or float(a) == a == b)
    if type(a) != type(b):
        return False
    if isinstance(a, dict):
        return a.keys() == b.keys() and all(same_json(a[k], b[k]) for k in a)
    if isinstance(a, list):
        return len(a) == len(b) and all(same_json(x, y) for x, y in zip(a, b))
    return a == b


def entry_diffs(obs, exp):
    """Compare an observed entry (driver JSON) with a model entry.
    Returns a list of human-readable differences (empty = equal)."""
    d = []
    if obs is None and exp is None:
        return d
    if obs is None:
        return ["entry missing (lookup returned not-found)"]
    if exp is None:
        return [f"unexpected entry {obs.get('key')!r} -> {obs.get('integrity')}"]
    if obs.get("key") != exp["key"]:
        d.append(f"key {obs.get('key')!r} != {exp['key']!r}")
    if obs.get("integrity") != exp["integrity"]:
        d.append(f"integrity {obs.get('integrity')} != {exp['integrity']}")
    if int(obs.get("size", -1)) != exp["size"]:
        d.append(f"size {obs.get('size')} != {exp['size']}")
    t = int(obs.get("time", "-1"))
    if exp["time"] is not None:
        if t != exp["time"]:
            d.append(f"time {t} != {exp['time']}")
    elif exp.get("window"):
        lo, hi = exp["window"]
        if not (lo - 1 <= t <= hi + 1):
            d.append(f"default time {t} outside commit window [{lo},{hi}] ms")
    if not same_json(obs.get("metadata"), exp["metadata"]):
        d.append(f"metadata {str(obs.get('metadata'))[:80]} != {str(exp['metadata'])[:80]}")
    oraw = obs.get("raw_metadata")
    oraw = bytes.fromhex(oraw) if oraw is not None else None
    if oraw != exp["raw_metadata"]:
        d.append(f"raw_metadata {str(oraw)[:60]} != {str(exp['raw_metadata'])[:60]}")
    return d
