"""Python side of the ptrace supervisor (sysmon)."""
import json
import os
import subprocess
import time

from . import build

O_WRONLY, O_RDWR, O_CREAT, O_EXCL, O_TRUNC, O_APPEND = 1, 2, 0o100, 0o200, 0o1000, 0o2000
O_DIRECTORY, O_TMPFILE = 0o200000, 0o20200000

NOSCHED_WARM = "mkdir,mkdirat,stat,lstat,statx,newfstatat,access,faccessat,faccessat2,fstat,readlink,readlinkat"

ERRNO = {"EPERM": 1, "ENOENT": 2, "EIO": 5, "ENOMEM": 12, "EACCES": 13, "EEXIST": 17, "EMFILE": 24, "ENOSPC": 28,
         "EROFS": 30, "EDQUOT": 122}

MUTATING_NAMES = {"rename", "renameat", "renameat2", "link", "linkat", "symlink", "symlinkat", "unlink", "unlinkat",
                  "rmdir", "mkdir", "mkdirat", "truncate", "ftruncate", "fallocate", "write", "pwrite64", "writev",
                  "pwritev", "pwritev2", "chmod", "fchmod", "fchmodat", "chown", "fchown", "lchown", "fchownat",
                  "utimensat", "utime", "utimes", "futimesat", "setxattr", "lsetxattr", "fsetxattr", "removexattr",
                  "lremovexattr", "fremovexattr", "mknod", "mknodat", "creat", "copy_file_range", "sendfile"}


def is_mutating(e):
    """Does this logged system call change the file system (if it succeeds)?"""
    n = e["name"]
    if n in MUTATING_NAMES:
        return True
    if n in ("open", "openat", "openat2"):
        fl = e.get("flags", 0)
        return bool(fl & (O_WRONLY | O_RDWR | O_CREAT | O_TRUNC | O_APPEND))
    if n == "mmap":
        fl = e.get("flags", 0)
        prot, flags = fl >> 16, fl & 0xffff
        return bool(prot & 2) and bool(flags & 1)  # PROT_WRITE and MAP_SHARED
    if n == "ioctl":
        return True  # only FICLONE* are logged
    return False


def mutation_targets(e):
    """Paths a mutating call changes."""
    n = e["name"]
    if n in ("rename", "renameat", "renameat2"):
        return list(e["paths"])
    if n in ("link", "linkat"):
        return e["paths"][1:]
    if n in ("copy_file_range", "sendfile", "ioctl"):
        return [e["fd_path"]]
    if e["paths"]:
        return list(e["paths"])
    return [e["fd_path"]] if e.get("fd_path") else []


class Result:
    def __init__(self, events, rc, stdouts, wall):
        self.events = events
        self.rc = rc
        self.stdouts = stdouts
        self.wall = wall
        self.final = next((e["final"] for e in reversed(events) if "final" in e), None)

    @property
    def visible(self):
        return [e for e in self.events if e.get("visible")]

    @property
    def decisions(self):
        return [e for e in self.events if "decision" in e and isinstance(e.get("decision"), int)]

    def responses(self, i=0):
        out = []
        for line in self.stdouts[i].splitlines():
            line = line.strip()
            if line.startswith("{"):
                try:
                    out.append(json.loads(line))
                except ValueError:
                    pass
        return out

    @property
    def timed_out(self):
        return self.rc == 3 or (self.final or {}).get("timeout")

    @property
    def killed(self):
        return bool((self.final or {}).get("killed"))


def argv(roots, log, kill_at=None, torn=None, inject=(), short=(), sched=None, tail=None, nosched=None,
         delay=None, ficlone=False, timeout=60, stdout_prefix=None, all_in_op=False, nosched_dirs=False):
    a = [build.ensure_sysmon(), "--log", log, "--timeout", str(timeout)]
    for r in roots:
        a += ["--root", r]
    if kill_at is not None:
        a += ["--kill-at", str(kill_at)]
    if torn is not None:
        a += ["--torn", str(torn)]
    for n, e in inject:
        a += ["--inject", f"{n}:{e}"]
    for n, k, e in short:
        a += ["--short", f"{n}:{k}:{e}"]
    if sched is not None:
        a += ["--sched", ",".join(str(x) for x in sched) if sched else ","]
    if tail:
        a += ["--tail", tail]
    if nosched:
        a += ["--nosched", nosched]
    if delay:
        a += ["--delay", f"{delay[0]}:{delay[1]}"]
    if ficlone:
        a.append("--emulate-ficlone")
    if stdout_prefix:
        a += ["--stdout-prefix", stdout_prefix]
    if all_in_op:
        a.append("--all-in-op")
    if nosched_dirs:
        a.append("--nosched-dirs")
    a.append("--")
    return a


def oneshot(variant, req, mode=None):
    r = dict(req)
    if mode:
        r["mode"] = mode
    return [build.ensure(variant), "op", json.dumps(r)]


_ctr = [0]


def run(cmds, roots, workdir, env=None, **kw):
    """Run 1..n commands under sysmon. Returns Result."""
    _ctr[0] += 1
    tag = f"{os.getpid()}-{_ctr[0]}-{time.time_ns() % 1000000}"
    log = os.path.join(workdir, f"sm-{tag}.log")
    prefix = os.path.join(workdir, f"sm-{tag}.out")
    a = argv(roots, log, stdout_prefix=prefix, **kw)
    full = list(a)
    for i, c in enumerate(cmds):
        if i:
            full.append("---")
        full += c
    e = dict(os.environ)
    e["CV_MARKERS"] = "1"
    e["CV_OUT_DIR"] = workdir
    if env:
        e.update(env)
    t0 = time.time()
    p = subprocess.run(full, env=e, stdout=subprocess.DEVNULL, stderr=subprocess.PIPE,
                       timeout=kw.get("timeout", 60) + 30)
    wall = time.time() - t0
    events = []
    try:
        with open(log) as f:
            for line in f:
                try:
                    events.append(json.loads(line))
                except ValueError:
                    pass
        os.unlink(log)
    except FileNotFoundError:
        pass
    outs = []
    for i in range(len(cmds)):
        try:
            with open(f"{prefix}.{i}") as f:
                outs.append(f.read())
            os.unlink(f"{prefix}.{i}")
        except FileNotFoundError:
            outs.append("")
    r = Result(events, p.returncode, outs, wall)
    r.argv = full
    r.stderr = p.stderr.decode("utf-8", "replace")
    return r
