"""Shared machinery for the supervised (sysmon) checks: templates, baselines,
parallel execution of killed / faulted runs."""
import concurrent.futures
import hashlib
import os
import shutil

from . import build, drv, sysm

WRITE_FAMILY = {"write", "pwrite64"}


class Scenario:
    """One operation on a prepared cache state."""

    def __init__(self, name, mode, req, prep=None, meta=None):
        self.name = name
        self.mode = mode            # e.g. sync@astd
        self.req = req              # request with cache "<C>" placeholder
        self.prep = prep or []      # requests run (untraced, sync) to build the pre-state
        self.meta = meta or {}


def subst(obj, cache, extra=None):
    if isinstance(obj, str):
        s = obj.replace("<C>", cache)
        for k, v in (extra or {}).items():
            s = s.replace(k, v)
        return s
    if isinstance(obj, dict):
        return {k: subst(v, cache, extra) for k, v in obj.items()}
    if isinstance(obj, list):
        return [subst(v, cache, extra) for v in obj]
    return obj


def build_template(ctx, sc, tdir):
    """Run the scenario's preparation in `tdir/cache` with an untraced driver."""
    cache = os.path.join(tdir, "cache")
    for q in sc.prep:
        r = ctx.call("sync@astd", subst(q, cache))
        if "ok" not in r:
            raise RuntimeError(f"scenario {sc.name}: preparation failed: {r}")
    return cache


def instantiate(template_dir, dst):
    """Copy a template run directory (symlinks preserved)."""
    shutil.copytree(template_dir, dst, symlinks=True)
    return os.path.join(dst, "cache")


def oneshot_cmd(sc, cache, extra=None):
    variant, m = drv.MODES[sc.mode]
    return sysm.oneshot(variant, subst(sc.req, cache, extra), m)


def tree_hash(cache):
    h = hashlib.sha1()
    for dp, dn, fn in os.walk(cache):
        dn.sort()
        rel = os.path.relpath(dp, cache)
        if rel.startswith("tmp"):
            continue
        for f in sorted(fn):
            p = os.path.join(dp, f)
            h.update(os.path.join(rel, f).encode("utf-8", "surrogateescape"))
            try:
                if os.path.islink(p):
                    h.update(b"L" + os.readlink(p).encode())
                else:
                    with open(p, "rb") as fh:
                        h.update(hashlib.sha1(fh.read()).digest())
            except OSError:
                h.update(b"?")
    return h.hexdigest()


def pmap(fn, items, workers=14):
    """Parallel map preserving order (threads; the work is in subprocesses)."""
    if not items:
        return []
    with concurrent.futures.ThreadPoolExecutor(max_workers=workers) as ex:
        return list(ex.map(fn, items))


def visible_writes(result):
    """[(n, count, fd_path)] of visible write-family calls in a traced baseline."""
    return [(e["n"], e["count"], e["fd_path"]) for e in result.visible if e["name"] in WRITE_FAMILY]


def torn_lengths(c, exhaustive_upto=256):
    if c <= 0:
        return []
    if c <= exhaustive_upto:
        return list(range(0, c))
    s = {0, 1, c // 2, c - 1, 1024, 4096, 4097, 8192}
    return sorted(x for x in s if 0 <= x < c)
