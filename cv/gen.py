"""Seeded generators: keys, data, chunkings, metadata, options."""
import random
import unicodedata

ALGOS = ["sha256", "sha512", "sha384", "sha1", "xxh3"]
MIB = 1 << 20

HOSTILE_KEYS = [
    "", "a", "key", "Key", "KEY", "my-key", "a/b", "a/b/c", "../../etc/passwd", "/abs/path", "..", ".",
    "con", "nul", "trailing.", "trailing ", " leading", "tab\there", "new\nline", "cr\rlf\r\n", "quote\"s",
    "back\\slash", "nul\x00byte", "\x01\x02\x03\x1f", "\x7f", "caf\u00e9", "cafe\u0301",
    "\u212b", "\u00c5", "A\u030a", "\U0001F600", "\U0001F469\u200d\U0001F4BB", "\ufeffbom", "\u202eRTL",
    "ｆｕｌｌ", "ß", "SS", "ss", "İ", "i̇", "%2e%2e%2f", "key?query=1#frag", "a" * 255, "b" * 256, "k" * 4096,
    "\u00e9" * 300, "line1\nline2\tcol\n", "{\"key\":\"x\"}", "\tleadingtab", "endsnl\n", "\n", "\t",
    "index-v5/aa/bb/cc", "content-v2/sha256/aa/bb/cc", "tmp/.tmpXXXX", "C:\\windows", "~", "$HOME", "`id`",
    # keys that look like the hashes the layout is built from
    "da39a3ee5e6b4b0d3255bfef95601890afd80709", "0" * 40, "ABCDEF0123456789abcdef0123456789ABCDEF01",
    "e3b0c44298fc1c149afbf4c8996fb92427ae41e4649b934ca495991b7852b855", "sha256-47DEQpj8HBSa+/TImW+5JCeuQeRkm5NMpJWZG3hSuFU=",
    "aa/bb/" + "c" * 36,
]

CONFUSABLE_GROUPS = [
    ["key", "Key", "KEY"],
    ["caf\u00e9", "cafe\u0301"],
    ["\u212b", "\u00c5", "A\u030a"],
    ["ß", "ss", "SS"],
    ["a/b", "a\\b", "a/b/", "a//b", "./a/b", "a/./b", "a/c/../b"],
    ["x", "x ", "x.", " x", "x\x00", "x\n", "x\t"],
    ["../x", "x", "/x"],
    ["", " ", "\x00"],
]


def rand_unicode_key(rng, maxlen=40):
    n = rng.randint(1, maxlen)
    out = []
    for _ in range(n):
        r = rng.random()
        if r < 0.4:
            out.append(chr(rng.randint(0x20, 0x7e)))
        elif r < 0.5:
            out.append(chr(rng.randint(0, 0x1f)))
        elif r < 0.7:
            out.append(chr(rng.randint(0xa0, 0x7ff)))
        elif r < 0.9:
            c = rng.randint(0x800, 0xffff)
            if 0xd800 <= c <= 0xdfff:
                c = 0x4e2d
            out.append(chr(c))
        else:
            out.append(chr(rng.randint(0x10000, 0x10ffff)))
    return "".join(out)


def keys(rng, n, hostile_share=0.5):
    out = []
    for i in range(n):
        if rng.random() < hostile_share:
            out.append(rng.choice(HOSTILE_KEYS))
        else:
            out.append(rand_unicode_key(rng))
    return out


def data(rng, n):
    if n == 0:
        return b""
    r = rng.random()
    if r < 0.1:
        return bytes([rng.randrange(256)]) * n
    if r < 0.2:
        return (b"\x00" * n)
    return rng.randbytes(n)


BOUNDARY_SIZES = [0, 1, 2, 3, 17, 63, 64, 65, 1023, 1024, 1025, 4095, 4096, 4097, 8191, 8192, 8193,
                  16383, 16384, 16385, 32767, 32768, 32769, 65535, 65536, 65537, 131071, 131072, 131073]


def edge_sizes(maxk=17):
    """Every 2^k and 3*2^k up to 2^maxk, each with its two neighbours: the sizes at which some buffer, page or
    threshold of an implementation is exactly full."""
    out = {0}
    for k in range(0, maxk + 1):
        for b in (1 << k, 3 << k):
            if b <= (1 << maxk) + 1:
                out.update((b - 1, b, b + 1))
    return sorted(out)
BIG_SIZES = [MIB - 1, MIB, MIB + 1, 2 * MIB + 3, 5 * MIB]


def size(rng, big_share=0.0):
    r = rng.random()
    if r < big_share:
        return rng.choice(BIG_SIZES)
    if r < 0.5:
        return rng.choice(BOUNDARY_SIZES)
    if r < 0.8:
        return rng.randint(0, 300)
    return rng.randint(0, 100000)


def chunking(rng, n, shape=None):
    """Cut [0,n) into chunk lengths. Returns (shape_name, [lengths])."""
    shapes = ["one", "bytes", "decreasing", "increasing", "random", "halves", "empties", "tail1", "head1"]
    if shape is None:
        shape = rng.choice(shapes)
    if n == 0:
        if shape in ("empties", "random"):
            return "empty+empties", [0] * rng.randint(1, 3)
        if shape == "one":
            return "empty-one", [0]
        return "empty-none", []
    if shape == "one":
        return shape, [n]
    if shape == "bytes":
        if n > 64:
            k = 64
            return "bytes-then-rest", [1] * k + [n - k]
        return shape, [1] * n
    if shape == "halves":
        return shape, [n // 2, n - n // 2] if n > 1 else [n]
    if shape == "tail1":
        return shape, [n - 1, 1] if n > 1 else [n]
    if shape == "head1":
        return shape, [1, n - 1] if n > 1 else [n]
    if shape in ("decreasing", "increasing"):
        cuts = []
        left = n
        step = max(1, n // 2)
        while left > 0:
            c = min(left, step)
            cuts.append(c)
            left -= c
            step = max(1, step // 2)
        if shape == "increasing":
            cuts.reverse()
        return shape, cuts
    # random / empties
    k = rng.randint(1, min(8, n))
    points = sorted(rng.sample(range(1, n), k - 1)) if n > 1 and k > 1 else []
    cuts = [b - a for a, b in zip([0] + points, points + [n])]
    if shape == "empties":
        for _ in range(rng.randint(1, 3)):
            cuts.insert(rng.randint(0, len(cuts)), 0)
        return shape, cuts
    return "random", cuts


def split(datab, lens):
    out = []
    off = 0
    for ln in lens:
        out.append(datab[off:off + ln])
        off += ln
    assert off == len(datab)
    return out


def json_string(rng):
    r = rng.random()
    if r < 0.3:
        return rng.choice(["", "x", "tab\t", "nl\n", "q\"", "b\\", "\u0000", "\u001f", "\u00e9", "\U0001F600",
                           "</script>", "\u2028\u2029", "\ud7ff", "\ufffd"])
    return rand_unicode_key(rng, 12)


def json_number(rng):
    r = rng.random()
    if r < 0.3:
        return rng.choice([0, 1, -1, 2 ** 31 - 1, -2 ** 31, 2 ** 53 - 1, 2 ** 53, 2 ** 53 + 1, 2 ** 63 - 1,
                           -2 ** 63, 2 ** 64 - 1, 2 ** 63])
    if r < 0.6:
        return rng.randint(-10 ** 12, 10 ** 12)
    # short decimal, <= 6 significant digits
    mant = rng.randint(1, 999999)
    exp = rng.randint(-6, 3)
    return float(f"{mant}e{exp}") * rng.choice([1, -1])


def json_value(rng, depth=0, maxdepth=4):
    r = rng.random()
    if depth >= maxdepth or r < 0.45:
        k = rng.random()
        if k < 0.15:
            return None
        if k < 0.3:
            return rng.random() < 0.5
        if k < 0.6:
            return json_number(rng)
        return json_string(rng)
    if r < 0.75:
        return [json_value(rng, depth + 1, maxdepth) for _ in range(rng.randint(0, 4))]
    return {json_string(rng): json_value(rng, depth + 1, maxdepth) for _ in range(rng.randint(0, 4))}


def nested(depth, leaf=1, kind="array"):
    v = leaf
    for i in range(depth):
        v = [v] if kind == "array" or (kind == "mixed" and i % 2) else {"k": v}
    return v


def raw_metadata(rng):
    r = rng.random()
    if r < 0.15:
        return b""
    if r < 0.3:
        return bytes(range(256))
    if r < 0.4:
        return rng.randbytes(rng.choice([1, 2, 1000, 65536]))
    return rng.randbytes(rng.randint(1, 64))


TIMES = [0, 1, 1234567, 2 ** 31, 2 ** 53 - 1, 2 ** 53 + 1, 2 ** 63, 2 ** 64 - 1, 2 ** 64, 2 ** 64 + 1,
         2 ** 100, 2 ** 127, 2 ** 128 - 1]


def time_value(rng):
    if rng.random() < 0.6:
        return rng.choice(TIMES)
    return rng.getrandbits(rng.choice([20, 41, 64, 100, 128]))


def nfc(s):
    return unicodedata.normalize("NFC", s)
