"""python3 -m cv.report  — regenerate seeded/RESULTS.md and mutants/RESULTS.md from the recorded outcomes."""
import json
import os

VERIF = os.path.dirname(os.path.dirname(os.path.abspath(__file__)))


def seeds_table():
    rows = []
    sd = os.path.join(VERIF, "seeded")
    for sid in sorted(os.listdir(sd)):
        d = os.path.join(sd, sid)
        if not os.path.isdir(d):
            continue
        try:
            meta = json.load(open(os.path.join(d, "meta.json")))
        except Exception:
            continue
        try:
            res = json.load(open(os.path.join(d, "results.json")))["results"]
        except Exception:
            res = {}
        caught = sorted(c for c, r in res.items() if r["rc"] == 1 and r["violations"])
        silent = sorted(c for c, r in res.items() if r["rc"] == 0)
        other = sorted(f"{c}(rc={r['rc']})" for c, r in res.items() if r["rc"] not in (0, 1))
        target = meta["breaks_property"]
        first = res.get(target, {}).get("first", "")
        if meta.get("obsolete_since"):
            caught = [f"(no longer a regression since /repo {meta['obsolete_since']}; reported by {target} on the tree it was written for)"]
            silent, other = [], []
        rows.append((sid, target, meta["change"], meta["needs_to_manifest"], caught, silent, other, first))
    return rows


def main():
    rows = seeds_table()
    out = ["# Seeded changes (produced by independent sub-agents) and the checks that catch them", "",
           "Each change compiles, keeps the repository's 38 tests green and comes with a demonstration that fails "
           "with it and passes without it (`cv/seedcheck.py`). `cv/seedrun.py` applied each to /repo, ran the listed "
           "quick checks (VERIF_SEED=1) and restored /repo.", "",
           "| id | property | change | needs, to manifest | caught by | silent (also run) |", "|---|---|---|---|---|---|"]
    for sid, target, change, needs, caught, silent, other, first in rows:
        tgt = target + " (obsolete)" if caught and caught[0].startswith("(no longer") else "**" + target + "**" if target in caught else (target + " (silent; caught by " + ", ".join(caught) + ")" if caught else target + " (MISSED)")
        out.append(f"| {sid} | {tgt} | {change} | {needs} | {', '.join(caught) or '-'} | {', '.join(silent + other) or '-'} |")
    out += ["", "First violation line of the target check, per seed:", ""]
    for sid, target, change, needs, caught, silent, other, first in rows:
        out.append(f"* `{sid}` — {first[:260]}")
    with open(os.path.join(VERIF, "seeded", "RESULTS.md"), "w") as f:
        f.write("\n".join(out) + "\n")
    # mutants
    try:
        rec = json.load(open(os.path.join(VERIF, "mutants", "results.json")))
    except Exception:
        rec = {}
    import importlib.util
    spec = importlib.util.spec_from_file_location("catalogue", os.path.join(VERIF, "mutants", "catalogue.py"))
    m = importlib.util.module_from_spec(spec)
    spec.loader.exec_module(m)
    out = ["# Hand-written mutants (`mutants/catalogue.py`) and the checks that catch them", "",
           "| mutant | what it does | expected | outcome of the last `./cvrun selftest` |", "|---|---|---|---|"]
    for mu in m.M:
        r = rec.get(mu["name"], {})
        oc = ", ".join(f"{c}:{v}" for c, v in sorted(r.get("checks", {}).items())) or r.get("status", "not run")
        out.append(f"| {mu['name']} | {mu['note']} | {', '.join(mu['expect'])} | {oc} |")
    try:
        ben = json.load(open(os.path.join(VERIF, "mutants", "benign_results.json")))
    except Exception:
        ben = {}
    out += ["", "## Benign refactorings (every check must stay silent)", "", "| refactoring | what it does | alarms |", "|---|---|---|"]
    for mu in m.BENIGN:
        r = ben.get(mu["name"], {})
        al = [c for c, v in sorted(r.get("checks", {}).items()) if v != "silent"]
        out.append(f"| {mu['name']} | {mu['note']} | {', '.join(al) if al else ('none (' + str(len(r.get('checks', {}))) + ' checks run)' if r else 'not run')} |")
    with open(os.path.join(VERIF, "mutants", "RESULTS.md"), "w") as f:
        f.write("\n".join(out) + "\n")
    print("wrote seeded/RESULTS.md and mutants/RESULTS.md")
    splice_design(rows, m, rec, ben)


def splice_design(rows, m, rec, ben):
    """Section 10 of DESIGN.md is generated from the recorded outcomes."""
    dp = os.path.join(VERIF, "DESIGN.md")
    s = open(dp).read()
    b, e = "<!-- BEGIN:S10 -->", "<!-- END:S10 -->"
    if b not in s:
        return
    out = [b, "",
           "| change | breaks | needs, to manifest | quick checks that report it | also run, silent |", "|---|---|---|---|---|"]
    for sid, target, change, needs, caught, silent, other, first in rows:
        out.append(f"| `seeded/{sid}` {change} | {target} | {needs} | {', '.join(caught) or 'none'} | {', '.join(silent + other) or '-'} |")
    out += ["", "Hand-written mutants (`mutants/catalogue.py`, run by `./cvrun selftest`):", "",
            "| mutant | what it does | reported by | silent |", "|---|---|---|---|"]
    for mu in m.M:
        r = rec.get(mu["name"], {})
        ck = r.get("checks", {})
        out.append(f"| {mu['name']} | {mu['note']} | {', '.join(c for c, v in sorted(ck.items()) if v == 'caught') or r.get('status', 'not run')} | "
                   f"{', '.join(c for c, v in sorted(ck.items()) if v != 'caught') or '-'} |")
    out += ["", "Benign refactorings (`./cvrun selftest --benign`, all 20 quick checks each; any alarm would be a false alarm):", ""]
    for mu in m.BENIGN:
        r = ben.get(mu["name"], {})
        al = [c for c, v in sorted(r.get("checks", {}).items()) if v != "silent"]
        out.append(f"* `{mu['name']}` ({mu['note']}): " + (("ALARMS " + ", ".join(al)) if al else (f"silent on {len(r.get('checks', {}))} checks" if r else "not run yet")))
    out += ["", e]
    s = s[:s.index(b)] + "\n".join(out) + s[s.index(e) + len(e):]
    open(dp, "w").write(s)
    print("spliced DESIGN.md section 10")


if __name__ == "__main__":
    main()
