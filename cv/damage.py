"""Content-file damage classes shared by C01 / C18 / C12 / C20."""
import os
import shutil


def small_damages(orig, other):
    """Exhaustive damage list for a small file: (class, position, new_bytes|special)."""
    n = len(orig)
    out = []
    for i in range(n):
        for b in range(8):
            d = bytearray(orig)
            d[i] ^= 1 << b
            out.append(("bitflip", i * 8 + b, bytes(d)))
    for k in range(n):
        out.append(("truncate", k, orig[:k]))
    out.append(("extend1", n, orig + b"\x00"))
    out.append(("extend-block", n, orig + b"A" * 4096))
    if n:
        out.append(("empty", 0, b""))
    out.append(("other-entry-bytes", 0, other))
    out.append(("swap", 0, "SWAP"))
    out.append(("symlink-to-other", 0, "SYMLINK"))
    return out


def large_damages(rng, orig, other):
    n = len(orig)
    out = []
    spots = sorted({0, 1023, 1024, 8191, 8192, n // 2, n - 1} & set(range(n)))
    for s in spots:
        d = bytearray(orig)
        ln = min(rng.choice([1, 2, 16]), n - s)
        for j in range(ln):
            d[s + j] ^= rng.randrange(1, 256)
        out.append(("multibyte", s, bytes(d)))
    for k in sorted({0, 1, 1024, 8192, n // 2, n - 1} & set(range(n))):
        out.append(("truncate", k, orig[:k]))
    out.append(("extend1", n, orig + b"\x00"))
    out.append(("extend-block", n, orig + b"B" * 4096))
    out.append(("other-entry-bytes", 0, other))
    out.append(("swap", 0, "SWAP"))
    out.append(("symlink-to-other", 0, "SYMLINK"))
    return out


class Damaged:
    """Context manager: apply one damage to `path` (other entry at `other_path`), restore on exit."""

    def __init__(self, path, other_path, spec, orig, other):
        self.path, self.other_path, self.spec, self.orig, self.other = path, other_path, spec, orig, other
        self.current = None

    def __enter__(self):
        cls, _pos, new = self.spec
        if new == "SWAP":
            with open(self.path, "wb") as f:
                f.write(self.other)
            with open(self.other_path, "wb") as f:
                f.write(self.orig)
            self.current = self.other
        elif new == "SYMLINK":
            os.unlink(self.path)
            os.symlink(self.other_path, self.path)
            self.current = self.other
        else:
            with open(self.path, "wb") as f:
                f.write(new)
            self.current = new
        return self

    def __exit__(self, *a):
        if os.path.islink(self.path):
            os.unlink(self.path)
        with open(self.path, "wb") as f:
            f.write(self.orig)
        with open(self.other_path, "wb") as f:
            f.write(self.other)
        return False
