"""cvrun selftest [mutant-name-prefix ...] [--verify-tests] [--all-checks]

Copies /repo to a scratch directory (outside /repo and /verif), applies one
mutant of mutants/catalogue.py at a time, and runs the quick checks that must
catch it against the copy (CV_REPO). Nothing under /repo or /verif/evidence is
touched."""
import importlib.util
import os
import shutil
import subprocess
import sys
import tempfile
import time

VERIF = os.path.dirname(os.path.dirname(os.path.abspath(__file__)))


def load_catalogue():
    spec = importlib.util.spec_from_file_location("catalogue", os.path.join(VERIF, "mutants", "catalogue.py"))
    m = importlib.util.module_from_spec(spec)
    spec.loader.exec_module(m)
    return m.BENIGN if os.environ.get("CV_SELFTEST_BENIGN") else m.M


def apply_edits(root, edits):
    for e in edits:
        path, old, new = e[0], e[1], e[2]
        p = os.path.join(root, path)
        s = open(p).read()
        if s.count(old) != 1:
            return f"edit does not apply to {path} (found {s.count(old)} occurrences)"
        open(p, "w").write(s.replace(old, new))
    return None


def run_check(prop, repo, seed, scratch_ev):
    env = dict(os.environ, CV_REPO=repo, VERIF_SEED=str(seed), CV_EVIDENCE_DIR=scratch_ev,
               CV_REPLAY_DIR=os.path.join(scratch_ev, "replays"))
    p = subprocess.run([os.path.join(VERIF, "cvrun"), prop, "--tier", "quick"], env=env, stdout=subprocess.PIPE,
                       stderr=subprocess.STDOUT, text=True)
    viol = [l for l in p.stdout.splitlines() if l.startswith("VIOLATION property=" + prop)]
    what = [l.strip() for l in p.stdout.splitlines() if l.strip().startswith("what:")]
    return p.returncode, len(viol), (what[0] if what else ""), p.stdout


def main(args, tier, seed):
    verify = "--verify-tests" in args
    allchecks = "--all-checks" in args
    if "--benign" in args:
        os.environ["CV_SELFTEST_BENIGN"] = "1"
        allchecks = True
    names = [a for a in args if not a.startswith("--")]
    cat = load_catalogue()
    if names:
        cat = [m for m in cat if any(m["name"].startswith(n) for n in names)]
    results = []
    for m in cat:
        t0 = time.time()
        # always the same path: the driver builds for CV_REPO=<this path> are then incremental across mutants
        root = "/tmp/cv-selftest"
        shutil.rmtree(root, ignore_errors=True)
        os.makedirs(root)
        repo = os.path.join(root, "repo")
        scratch_ev = os.path.join(root, "evidence")
        os.makedirs(scratch_ev)
        # the committed state of /repo (HEAD), independent of whatever is applied to its working tree right now
        os.makedirs(repo)
        ar = subprocess.Popen(["git", "-C", os.environ.get("CV_SELFTEST_BASE", "/repo"), "archive", "HEAD"], stdout=subprocess.PIPE)
        subprocess.run(["tar", "-x", "-C", repo], stdin=ar.stdout, check=True)
        ar.wait()
        if os.path.exists("/repo/Cargo.lock") and not os.path.exists(os.path.join(repo, "Cargo.lock")):
            shutil.copy("/repo/Cargo.lock", os.path.join(repo, "Cargo.lock"))
        try:
            err = apply_edits(repo, m["edits"])
            if err:
                print(f"[selftest] {m['name']}: STALE — {err}", flush=True)
                results.append((m["name"], "stale", {}))
                continue
            if verify:
                cmd = ["cargo", "test", "--offline", "--lib"]   # the repository's baseline: default features
                p = subprocess.run(cmd, cwd=repo, stdout=subprocess.PIPE, stderr=subprocess.STDOUT, text=True,
                                   env=dict(os.environ, CARGO_TARGET_DIR=os.path.join(root, "target")))
                ok = p.returncode == 0 and "test result: ok" in p.stdout
                print(f"[selftest] {m['name']}: repository tests {'pass' if ok else 'FAIL'} with the mutant", flush=True)
                if not ok:
                    print(p.stdout[-1500:])
                    results.append((m["name"], "tests-fail", {}))
                    continue
            per = {}
            checks = m["expect"] if not allchecks else [f"C{i:02d}" for i in range(1, 21)]
            for prop in checks:
                rc, nv, what, out = run_check(prop, repo, seed, scratch_ev)
                per[prop] = (rc, nv)
                tag = "caught" if nv > 0 and rc == 1 else ("MISSED" if rc == 0 else f"rc={rc}")
                print(f"[selftest] {m['name']}: {prop} {tag} ({nv} violation lines) {what[:140]}", flush=True)
                if rc not in (0, 1):
                    print(out[-1500:])
            results.append((m["name"], "ran", per))
        finally:
            shutil.rmtree(root, ignore_errors=True)
        print(f"[selftest] {m['name']}: done in {time.time() - t0:.0f}s", flush=True)
    import hashlib
    suffix = "-" + hashlib.sha1("/tmp/cv-selftest/repo".encode()).hexdigest()[:8]
    bdir = os.path.join(VERIF, ".build")
    for d in os.listdir(bdir) if os.path.isdir(bdir) else []:
        if d.endswith(suffix):
            shutil.rmtree(os.path.join(bdir, d), ignore_errors=True)
    missed = [(n, p) for n, st, per in results if st == "ran" for p, (rc, nv) in per.items()
              if p in next(x for x in load_catalogue() if x["name"] == n)["expect"] and not (rc == 1 and nv > 0)]
    if os.environ.get("CV_SELFTEST_BENIGN"):
        alarms = [(n, p, rc) for n, st, per in results if st == "ran" for p, (rc, nv) in per.items() if rc != 0]
        print("\n== benign refactorings: every check must stay silent ==")
        for n, st, per in results:
            print(f"  {n:40s} {st:10s} alarms: {[p for p, (rc, nv) in per.items() if rc != 0] or 'none'}")
        return 1 if alarms else 0
    # keep a merged record of the latest outcome per mutant
    import json
    rp = os.path.join(VERIF, "mutants", "benign_results.json" if os.environ.get("CV_SELFTEST_BENIGN") else "results.json")
    try:
        rec = json.load(open(rp))
    except Exception:
        rec = {}
    for n, st, per in results:
        rec[n] = {"status": st, "checks": {p: ("caught" if rc == 1 and nv else "silent" if rc == 0 else f"rc{rc}") for p, (rc, nv) in per.items()}}
    with open(rp, "w") as f:
        json.dump(rec, f, indent=1, sort_keys=True)
    print("\n== selftest summary ==")
    for n, st, per in results:
        print(f"  {n:45s} {st:10s} " + " ".join(f"{p}:{'caught' if rc == 1 and nv else 'missed' if rc == 0 else 'rc%d' % rc}" for p, (rc, nv) in per.items()))
    if missed:
        print("MISSED:", missed)
        return 1
    return 0
