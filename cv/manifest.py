"""Generate /verif/MANIFEST.json from the table below (python3 -m cv.manifest)."""
import json
import os

VERIF = os.path.dirname(os.path.dirname(os.path.abspath(__file__)))

# id -> (category, technique, text, note, design_ref)
CHECKS = {
    "C01": ("fault_enumeration",
            "runtime monitoring: exhaustive content-damage enumeration (every bit flip / truncation of small files) against every checked retrieval, byte-equality oracle",
            "Every single-bit flip and truncation of small content files, boundary damage of large ones, swap/symlink/replacement, "
            "against read, read_hash, Reader (7 buffer patterns), copy, hard_link, reflink (also with emulated FICLONE) in every "
            "mode; the monitor flags any Ok whose delivered bytes differ from the stored ones.",
            "Damage is applied between calls. FICLONE is emulated by the ptrace supervisor (no CoW filesystem available).",
            "DESIGN.md §5 C01"),
    "C02": ("exploration",
            "runtime monitoring: reference-digest + read-back oracle over generated writes in 3-4 execution modes; sanitizer replays in thorough",
            "Every write entry point (one-shot, streamed, keyed, by address, declared/undeclared size) is driven "
            "in sync/async-std/tokio modes over hostile keys, boundary sizes and 9 chunk shapes; the monitor "
            "compares the returned address with hashlib and every read-back with the written bytes. A short-write monitor "
            "(ptrace supervisor shortens every data write(2) of three scenarios) checks that a legal partial write does not "
            "change the digest. Thorough: the same generators replayed under ASan, valgrind memcheck and Miri with a "
            "result-equality oracle. Held on the executions listed in the evidence, not a proof.",
            "Trusts hashlib, the tmpfs/ext4 kernel implementation and the cdrv driver's faithful transcription of "
            "results. xxh3 is checked for determinism/read-back only.",
            "DESIGN.md §5 C02"),
    "C05": ("exploration",
            "runtime monitoring: bounded-exhaustive and random operation histories judged step by step by a sequential reference model",
            "All histories up to length 3 (quick) / 4 (thorough) over {write x3 shapes, remove} x 2 keys, plus seeded long "
            "histories over 8 keys with foreign records and mixed sync/async modes; after every step every key's lookup and "
            "read is compared with the model. Also twin caches: two directories used alternately by the same processes, one "
            "model each.",
            "Sequential use only (concurrency is C07). Model written from the property statement.",
            "DESIGN.md §5 C05"),
    "C06": ("fault_enumeration",
            "runtime monitoring: exhaustive record cuts and bit flips of bucket files + random structural damage; analytic and reference-parser oracles, phantom check, sync/async agreement",
            "Each record cut at every byte length, every single-bit flip of small buckets, overwrites incl. invalid UTF-8, inserted "
            "garbage lines, duplicated/moved fragments, followed by appends through the API; lookups in sync and both async "
            "runtimes and the listing are compared with what the undamaged records imply.",
            "Lines that only validate after stripping one CR are accepted either way. Malformed integrity strings are outside the property.",
            "DESIGN.md §5 C06"),
    "C08": ("exploration",
            "runtime monitoring: generated commits with declared size/integrity classes; error-variant and before/after lookup oracle",
            "Commits with declared sizes {len-1,len,len+1,0,2len,1MiB+-1} and integrity classes {correct, wrong, other algorithm, "
            "multi-hash} over chunkings, both sides of the mmap threshold, prior key states, keyed/by-address, all modes; the "
            "monitor compares error variants, SizeMismatch numbers and metadata/read before and after.",
            "A declared integrity without a hash of the writer's algorithm is an open outcome.",
            "DESIGN.md §5 C08"),
    "C09": ("exploration",
            "runtime monitoring: model-based random histories with full-state comparison after every removal",
            "Random histories mixing writes with remove / remove_hash / remove_fully / clear (sync and async); after every removal "
            "every key and address ever used and the listing are compared with the sequential model. In addition a removal of one "
            "key races (supervisor-chosen schedules) with a write of another key whose bucket shares both index directories: the "
            "other key must keep its entry.",
            "Open outcomes (remove_fully of absent key etc.) accept Err with unchanged state.",
            "DESIGN.md §5 C09"),
    "C10": ("exploration",
            "runtime monitoring: generated histories; listing compared as a multiset with the model and with per-key lookup",
            "Histories with many records per bucket, tombstones in all positions, re-insertion, up to 300 keys; list_sync compared with "
            "the model and item-by-item with metadata_sync.",
            "An Err item for an absent index directory counts as the empty listing.",
            "DESIGN.md §5 C10"),
    "C11": ("exploration",
            "runtime monitoring: generated entries (128-bit times, recursive JSON, raw bytes) compared field by field after round trip; default-time window monitor",
            "Every write entry point and mode with generated keys, 0..2^128-1 timestamps, nested JSON, raw metadata, declared sizes; "
            "read back through metadata*, list_sync and index::find*; defaults checked against the commit's wall-clock window.",
            "JSON numbers limited to i64/u64 and short decimals as the property states. Known finding: nesting >= 127.",
            "DESIGN.md §5 C11"),
    "C14": ("exploration",
            "runtime monitoring: abandonment-point enumeration with before/after lookup comparison and temp-area census at quiescence",
            "Writers dropped after open / k chunks / with a blocking write in flight / after flush / after close, and commits rejected "
            "by size or integrity, on both sides of the mmap threshold; listing+lookups compared before/after, temp area "
            "censused once the driver reports quiescence.",
            "A temp file present after 10 s + 3 re-polls is treated as leaked.",
            "DESIGN.md §5 C14"),
    "C16": ("exploration",
            "runtime monitoring: content-area census (path, bytes, inode) after every write of duplicate data across algorithms/entry points/modes; hashlib oracle",
            "Histories re-writing equal data under the same/other keys, by address, via all entry points, modes and the five "
            "algorithms; after every write the content area must be exactly the expected set of digest-named files; damaging "
            "one algorithm's copy must not affect the others.",
            "xxh3 checked for determinism only.",
            "DESIGN.md §5 C16"),
    "C17": ("exploration",
            "runtime monitoring: differential execution against an independent Python implementation of the on-disk format, both directions, plus byte-level grammar and path census",
            "Library-written caches are decoded by cv.ref (path census, record grammar, lookups, content) and reference-written "
            "caches (4 JSON spellings) are read by the library in every mode.",
            "cv.ref was written from the format description; xxh3 only library->reference.",
            "DESIGN.md §5 C17"),
    "C18": ("fault_enumeration",
            "runtime monitoring: extraction entry points x content states (pristine / damage classes / missing / key absent) x destination states; destination inspected after every call",
            "All 18 extraction functions (+ reflink with emulated FICLONE) over sizes around buffer boundaries, content pristine / "
            "damaged / missing, key absent, destination absent / pre-seeded with marker bytes; result class, byte count and the "
            "destination's bytes are judged.",
            "FICLONE emulated; C01 enumerates damage positions exhaustively, C18 takes one representative per class.",
            "DESIGN.md §5 C18"),
    "C03": ("fault_enumeration",
            "runtime monitoring under a ptrace supervisor: SIGKILL at every visible system call of every write scenario and torn write(2) lengths; content-area digest walk after each kill",
            "For each write scenario a traced baseline lists the file-system calls; every one is used as a kill point and every "
            "write(2) is torn (all lengths <= 256 bytes, boundary lengths above); after each kill every file under content-v2 is "
            "re-hashed against its path and a fresh process cross-checks exists/read_hash. Also: 2-3 writers of ONE process "
            "advanced step by step in random merges, and async writers used after a cancelled write; the content area is "
            "re-hashed after every step.",
            "Process kill only (no power-loss model). Async modes: kill points index arrival order, each repeated.",
            "DESIGN.md §5 C03"),
    "C04": ("fault_enumeration",
            "runtime monitoring under a ptrace supervisor: kill at every visible call + every torn prefix of the index append; old-or-new oracle from fresh sync/async readers; continuation must succeed",
            "First write, overwrite, removal, multi-byte UTF-8 key/metadata, 2 KiB metadata and one-shot write are interrupted at "
            "every system call and the index append is torn at every byte; fresh readers in three modes must see exactly the old "
            "or the new entry, bystanders unchanged, and a continuation must succeed and become visible.",
            "Quick tier thins torn lengths for some scenarios (exhaustive for the UTF-8 and removal scenarios in sync mode).",
            "DESIGN.md §5 C04"),
    "C07": ("exploration",
            "runtime monitoring: ptrace-controlled schedule exploration (exhaustive DFS over system-call interleavings of 2-3 processes on warm caches, random/PCT elsewhere) with a serializability oracle; multi-process stress with WGL linearizability checking; ThreadSanitizer in thorough",
            "Pairs and triples of conflicting operations run as separate processes whose file-system calls are interleaved by the "
            "supervisor in every order (warm caches, sync) or in seeded random orders (cold caches, async runtimes); every run must "
            "match some serial order in results and final state and leave structurally clean buckets. A free-running stress with "
            "unique values is checked per key/address for linearizability and record conservation. Overlapping writer handles "
            "of one process (random merges of open/chunk/commit|drop steps) are judged against the order of their commits.",
            "System-call granularity; clear/remove_fully excluded by the property; TSan only in the thorough tier.",
            "DESIGN.md §5 C07"),
    "C12": ("exploration",
            "runtime monitoring: differential execution of generated programs (incl. damage steps) across sync / async-std / tokio builds, step-by-step and final-tree comparison, mixed-mode runs",
            "Generated programs over the whole op table, with harness steps that damage content and bucket files, are executed in "
            "every mode on fresh caches and with steps routed to alternating modes on one shared cache; classifications, data, "
            "metadata, destination files and decoded final trees must agree.",
            "Error context strings and io::ErrorKind are not compared; default timestamps normalised.",
            "DESIGN.md §5 C12"),
    "C13": ("fault_enumeration",
            "runtime monitoring under a ptrace supervisor: errno injection at every visible system call (class-specific errnos, short write + ENOSPC), truthfulness / state / retry oracles",
            "For 15 operations x modes every file-system call is failed with each errno of its class; the monitor requires no "
            "panic or hang, truthful Ok, old-or-new after failed writes, intact bystanders, a valid content area, clean buckets, "
            "and success of the same call once the fault is gone. Thorough adds fault pairs.",
            "close() and ENOENT are not injected.",
            "DESIGN.md §5 C13"),
    "C15": ("exploration",
            "runtime monitoring: system-call trace monitor (ptrace) over hostile/confusable keys with decoy TMPDIR/HOME/cwd; every path-taking call classified",
            "26-operation scripts per hostile key and mode run traced; every successful mutating call must hit the cache or the "
            "explicit destination, read-only operations must not mutate, every path inside the cache must be hash-derived, the "
            "decoy tree must be unchanged; confusable key groups must stay distinct.",
            "Async runtimes' writes to eventfds/pipes are not file-system mutations.",
            "DESIGN.md §5 C15"),
    "C19": ("exploration",
            "runtime monitoring: link_to entry points x target length x absolute/relative paths (driver chdir) x partial reads x post-link target mutation; byte, lstat and target-snapshot oracles",
            "All link_to entry points in all modes with absolute and relative targets, partial reads before commit, pre-existing "
            "content, size/integrity options, and later modification/removal of the target; reads must return the link-time bytes "
            "or fail, the content path must be a symlink, the target must be untouched.",
            "Targets on the same tmpfs.",
            "DESIGN.md §5 C19"),
    "C20": ("exploration",
            "runtime monitoring: panic hook + catch_unwind + process-death + CPU-time watchdog over random programs, the writer option space, 20 hostile on-disk states and hostile keys; sanitizer replays in thorough",
            "Every public operation in every mode against random programs with damage, panic-prone writer options, hostile "
            "directory states (directories/symlinks/loops/garbage where files are expected) and hostile keys; any panic, background "
            "panic, process death or hang is a violation.",
            "Integrity arguments well-formed; FIFOs/devices excluded.",
            "DESIGN.md §5 C20"),
}

NOT_YET = {
}


def main():
    checks = []
    for pid in sorted(CHECKS):
        cat, tech, text, note, ref = CHECKS[pid]
        checks.append({
            "property_id": pid,
            "quick_cmd": f"./cvrun {pid} --tier quick",
            "thorough_cmd": f"./cvrun {pid} --tier thorough",
            "evidence_file": f"/verif/evidence/{pid}.json",
            "replay_cmd_template": "./cvrun replay {path}",
            "engine": "cvrun",
            "level_claimed": {"category": cat, "text": text, "design_ref": ref},
            "level_note": note,
            "technique": tech,
        })
    na = []
    for i in range(1, 21):
        pid = f"C{i:02d}"
        if pid not in CHECKS:
            na.append({"property_id": pid,
                       "reason": NOT_YET.get(pid, "check under construction in this session; not claimed until its "
                                                  "monitor runs silently on the unchanged tree")})
    m = {
        "version": 1,
        "setup_cmd": "python3 -m cv.build astd tok sysmon",
        "hooks": {
            "guard": "cacache_verif",
            "enable": "none needed: all monitors observe the public API (cdrv driver) or the system-call boundary "
                      "(sysmon ptrace supervisor); no source hooks exist in /repo",
            "baseline_off_cmd": "cd /repo && cargo test --workspace --no-fail-fast --offline",
            "source_commits": [],
            "add_only": True,
        },
        "engines": [
            {"name": "cvrun", "path": "/verif/cvrun", "serves_properties": sorted(CHECKS),
             "kind_free_text": "runtime monitoring: Rust op driver (cdrv, async-std and tokio builds) + ptrace "
                               "supervisor (sysmon) + Python reference model/oracles; sanitizer replays "
                               "(ASan, TSan, Miri, memcheck) in thorough tiers"},
        ],
        "checks": checks,
        "not_applicable": na,
        "notes": "See DESIGN.md (section 6: defects found and repaired; section 10: which check catches which mutant / seeded "
                 "change). Fixes to genuine defects are 'fix:' commits in /repo and are listed in known_findings.json as fixed "
                 "entries; the one open finding (metadata nested >= 127 levels, C11) prints a KNOWN-FINDING line. "
                 "`./cvrun selftest` validates the monitors against mutants/catalogue.py on a scratch copy; "
                 "`python3 -m cv.seedrun <id>` runs them against a seeded change applied to /repo and restores /repo.",
    }
    with open(os.path.join(VERIF, "MANIFEST.json"), "w") as f:
        json.dump(m, f, indent=1)
        f.write("\n")
    print(f"MANIFEST.json: {len(checks)} checks, {len(na)} not claimed")


if __name__ == "__main__":
    main()
