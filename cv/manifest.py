"""Generate /verif/MANIFEST.json from the table below (python3 -m cv.manifest)."""
import json
import os

VERIF = os.path.dirname(os.path.dirname(os.path.abspath(__file__)))

# id -> (category, technique, text, note, design_ref)
CHECKS = {
    "C02": ("exploration",
            "runtime monitoring: reference-digest + read-back oracle over generated writes in 3-4 execution modes; sanitizer replays in thorough",
            "Every write entry point (one-shot, streamed, keyed, by address, declared/undeclared size) is driven "
            "in sync/async-std/tokio modes over hostile keys, boundary sizes and 9 chunk shapes; the monitor "
            "compares the returned address with hashlib and every read-back with the written bytes. Held on the "
            "executions listed in the evidence, not a proof.",
            "Trusts hashlib, the tmpfs/ext4 kernel implementation and the cdrv driver's faithful transcription of "
            "results. xxh3 is checked for determinism/read-back only.",
            "DESIGN.md §5 C02"),
}

NOT_YET = {
}


def main():
    checks = []
    for pid in sorted(CHECKS):
        cat, tech, text, note, ref = CHECKS[pid]
        checks.append({
            "property_id": pid,
            "quick_cmd": f"./cvrun {pid} --tier quick",
            "thorough_cmd": f"./cvrun {pid} --tier thorough",
            "evidence_file": f"/verif/evidence/{pid}.json",
            "replay_cmd_template": "./cvrun replay {path}",
            "engine": "cvrun",
            "level_claimed": {"category": cat, "text": text, "design_ref": ref},
            "level_note": note,
            "technique": tech,
        })
    na = []
    for i in range(1, 21):
        pid = f"C{i:02d}"
        if pid not in CHECKS:
            na.append({"property_id": pid,
                       "reason": NOT_YET.get(pid, "check under construction in this session; not claimed until its "
                                                  "monitor runs silently on the unchanged tree")})
    m = {
        "version": 1,
        "setup_cmd": "python3 -m cv.build astd tok sysmon",
        "hooks": {
            "guard": "cacache_verif",
            "enable": "none needed: all monitors observe the public API (cdrv driver) or the system-call boundary "
                      "(sysmon ptrace supervisor); no source hooks exist in /repo",
            "baseline_off_cmd": "cd /repo && cargo test --workspace --no-fail-fast --offline",
            "source_commits": [],
            "add_only": True,
        },
        "engines": [
            {"name": "cvrun", "path": "/verif/cvrun", "serves_properties": sorted(CHECKS),
             "kind_free_text": "runtime monitoring: Rust op driver (cdrv, async-std and tokio builds) + ptrace "
                               "supervisor (sysmon) + Python reference model/oracles; sanitizer replays "
                               "(ASan, TSan, Miri, memcheck) in thorough tiers"},
        ],
        "checks": checks,
        "not_applicable": na,
        "notes": "See DESIGN.md. Fixes to genuine defects are 'fix:' commits in /repo and are listed in "
                 "known_findings.json as fixed entries.",
    }
    with open(os.path.join(VERIF, "MANIFEST.json"), "w") as f:
        json.dump(m, f, indent=1)
        f.write("\n")
    print(f"MANIFEST.json: {len(checks)} checks, {len(na)} not claimed")


if __name__ == "__main__":
    main()
