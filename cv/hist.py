"""Histories: execute lists of (mode, request) steps and judge every response
against the sequential model."""
from . import drv, ev, ref
from .model import Model, entry_diffs


def execute(ctx, steps):
    """steps: [{'mode':..., 'req':...}]. Consecutive steps of one mode are
    pipelined; order across modes is preserved. Returns responses."""
    out = []
    i = 0
    while i < len(steps):
        j = i
        while j < len(steps) and steps[j]["mode"] == steps[i]["mode"]:
            j += 1
        out.extend(ctx.batch(steps[i]["mode"], [s["req"] for s in steps[i:j]]))
        i = j
    return out


def window(resp):
    try:
        return (int(resp["w0"]), int(resp["w1"]))
    except Exception:
        return None


def opts_of(req):
    return req.get("opts") or {}


def judge(model, step, resp):
    """Apply `step` to the model and compare with the response.
    Returns (problems: [str], observed_class: str)."""
    req = step["req"]
    op = req["op"]
    probs = []
    v = ev.variant(resp)
    if op in ("write", "writer") and req.get("key") is not None:
        data = step["data"]
        algo = req.get("algo") or opts_of(req).get("algo") or "sha256"
        o = opts_of(req)
        if o.get("size") is not None and o["size"] != len(data):
            # a commit that has to be refused: no effect on any lookup (whether the bytes stay behind at their address
            # is not part of the model; histories using this keep that unobservable or unambiguous)
            if v != "SizeMismatch":
                probs.append(f"{op}({req['key']!r}) with declared size {o['size']} for {len(data)} bytes gave {ev.brief(resp)}")
            return probs, v
        if v != "Ok":
            probs.append(f"{op}({req['key']!r}) failed: {ev.brief(resp)}")
            return probs, v
        sri = resp["ok"].get("sri")
        want = model.expected_sri(algo, data)
        if algo == "xxh3":
            p = model.learn(algo, data, sri)
            if p:
                probs.append(p)
        elif sri != want:
            probs.append(f"{op} returned {sri}, expected {want}")
        t = o.get("time")
        model.commit(req["key"], sri, data, size=o.get("size"), time=int(t) if t is not None else None,
                     metadata=o.get("metadata"), raw=bytes.fromhex(o["raw_metadata"]) if o.get("raw_metadata") is not None else None,
                     window=window(resp))
        return probs, v
    if op in ("write_hash",) or (op == "writer" and req.get("key") is None):
        data = step["data"]
        algo = req.get("algo") or opts_of(req).get("algo") or "sha256"
        if v != "Ok":
            probs.append(f"{op} failed: {ev.brief(resp)}")
            return probs, v
        sri = resp["ok"].get("sri")
        if algo == "xxh3":
            p = model.learn(algo, data, sri)
            if p:
                probs.append(p)
        elif sri != model.expected_sri(algo, data):
            probs.append(f"{op} returned {sri}, expected {model.expected_sri(algo, data)}")
        model.store(sri, data)
        return probs, v
    if op == "index_insert" and step.get("unusable"):
        # a raw index record whose integrity cannot address content (no hash, truncated digest, unknown algorithm):
        # every reader skips it like a damaged line, so neither lookups nor listings change
        if v != "Ok":
            probs.append(f"index_insert({req['key']!r}) of a record with an unusable integrity failed: {ev.brief(resp)}")
        return probs, v
    if op == "index_insert" and step.get("raw_entry"):
        # a raw index record with a usable integrity (possibly several hashes): it becomes the key's entry as given;
        # nothing is stored, so reads depend on whether the content its strongest hash names is there
        o = opts_of(req)
        if v != "Ok":
            probs.append(f"index_insert({req['key']!r}) failed: {ev.brief(resp)}")
            return probs, v
        hs = ref.sri_parse(o["sri"])
        import base64 as _b64
        norm = " ".join(f"{a}-{_b64.b64encode(raw).decode()}" for a, raw in hs)
        model.root_exists = True
        model.index[req["key"]] = {"key": req["key"], "integrity": norm, "time": int(o["time"]) if o.get("time") is not None else None,
                                   "window": window(resp), "size": o.get("size", 0), "metadata": o.get("metadata"),
                                   "raw_metadata": bytes.fromhex(o["raw_metadata"]) if o.get("raw_metadata") is not None else None}
        model.buckets.add(req["key"])
        return probs, v
    if op in ("remove", "remove_opts", "index_delete"):
        model.remove(req["key"])
        if v != "Ok":
            probs.append(f"{op}({req['key']!r}) failed: {ev.brief(resp)}")
        return probs, v
    if op == "remove_hash":
        allowed = model.remove_hash(req["sri"])
        if v not in allowed:
            probs.append(f"remove_hash gave {ev.brief(resp)}, allowed {sorted(allowed)}")
        return probs, v
    if op == "remove_fully":
        before = model.clone()
        allowed = model.remove_fully(req["key"], v)
        if v not in allowed:
            probs.append(f"remove_fully({req['key']!r}) gave {ev.brief(resp)}, allowed {sorted(allowed)}")
            if v == "Ok":
                # keep following the implementation as far as sensible
                pass
            else:
                model.index, model.buckets, model.content = before.index, before.buckets, before.content
        return probs, v
    if op == "clear":
        existed = model.root_exists
        model.clear()
        # clearing a directory that was never created is an open outcome
        if v != "Ok" and not (not existed and v == "IoError"):
            probs.append(f"clear failed: {ev.brief(resp)}")
        return probs, v
    if op in ("metadata", "index_find"):
        if v != "Ok":
            probs.append(f"{op}({req['key']!r}) failed: {ev.brief(resp)}")
            return probs, v
        d = entry_diffs(resp["ok"]["entry"], model.lookup(req["key"]))
        probs.extend(f"{op}({req['key']!r}): {x}" for x in d)
        return probs, "Ok:" + ("some" if resp["ok"]["entry"] else "none")
    if op in ("read", "reader") and "key" in req:
        cls, data = model.read(req["key"])
        if v != cls:
            probs.append(f"{op}({req['key']!r}) gave {ev.brief(resp)}, model says {cls}")
        elif cls == "Ok":
            got = drv.data_bytes(resp["ok"]["data"])
            if got != data:
                probs.append(f"{op}({req['key']!r}) returned {len(got)} bytes differing from the model's {len(data)}")
        return probs, v
    if op in ("read_hash", "reader"):
        cls, data = model.read_hash(req["sri"])
        if v != cls:
            probs.append(f"{op}({req['sri'][:20]}) gave {ev.brief(resp)}, model says {cls}")
        elif cls == "Ok":
            got = drv.data_bytes(resp["ok"]["data"])
            if got != data:
                probs.append(f"{op} by address returned {len(got)} bytes differing from the model's {len(data)}")
        return probs, v
    if op == "exists":
        if v != "Ok" or resp["ok"]["exists"] != model.exists(req["sri"]):
            probs.append(f"exists({req['sri'][:20]}) gave {ev.brief(resp)}, model says {model.exists(req['sri'])}")
        return probs, v
    if op in ("list", "index_ls"):
        probs.extend(judge_listing(model, resp))
        return probs, v
    return [f"harness: no model rule for op {op}"], v


def judge_listing(model, resp):
    probs = []
    if ev.variant(resp) != "Ok":
        return [f"list failed: {ev.brief(resp)}"]
    items = resp["ok"]["items"]
    errs = [i for i in items if "err" in i]
    ents = [i for i in items if "err" not in i]
    if errs:
        # the only tolerated error item: index directory absent == empty listing
        if not (len(items) == 1 and not model.buckets and not model.index):
            # an absent index-v5 yields exactly one Err item; with buckets present it is a real error
            if not (len(errs) == 1 and not ents and not model.index and _index_dir_may_be_absent(model)):
                probs.append(f"list yielded error item(s): {str(errs[0])[:200]}")
    seen = {}
    for e in ents:
        k = e["key"]
        if k in seen:
            probs.append(f"list yielded key {k!r} twice")
        seen[k] = e
    for k, e in seen.items():
        d = entry_diffs(e, model.lookup(k))
        probs.extend(f"list[{k!r}]: {x}" for x in d)
    for k in model.index:
        if k not in seen:
            probs.append(f"list omitted live key {k!r}")
    return probs


def _index_dir_may_be_absent(model):
    # index-v5 is created by the first insert and removed only by clear
    return not model.buckets


def sha_algo(rng):
    return rng.choice(["sha256", "sha256", "sha512", "sha1", "sha384"])
