"""Sanitizer replays (thorough tiers): the same generated request scripts are run
through ASan / Miri / valgrind-memcheck builds of the driver; the monitors are
(a) zero sanitizer reports and (b) result-for-result equality with the plain
release build. Build failures, unsupported operations and timeouts are
INCONCLUSIVE, never violations and never passes."""
import hashlib
import json
import os
import re
import shutil
import subprocess
import time

from . import build, drv, ev, gen, ref


def norm(r):
    """Mode/sanitizer independent view of a response."""
    v = ev.variant(r)
    if v != "Ok":
        if isinstance(r.get("panic"), dict) and str(r["panic"].get("msg", "")).startswith("harness:"):
            return ("HARNESS-PANIC", r["panic"]["msg"][:120])      # the driver's own problem, never a verdict
        return (v,)
    ok = r["ok"]
    out = ["Ok"]
    for f in ("sri", "n", "exists", "dropped", "checked", "written", "quiet"):
        if f in ok:
            out.append((f, ok[f]))
    if "data" in ok:
        d = ok["data"]
        if "hex" in d:
            b = bytes.fromhex(d["hex"])
        else:
            try:
                with open(d["file"], "rb") as f:
                    b = f.read()
                os.unlink(d["file"])
            except OSError:
                b = b"?"
        out.append(("data", len(b), hashlib.sha1(b).hexdigest()))
    if "entry" in ok:
        e = ok["entry"]
        out.append(("entry", None if e is None else (e["key"], e["integrity"], e["size"], repr(e["metadata"]), e["raw_metadata"])))
    if "items" in ok:
        out.append(("items", tuple(sorted(i.get("key", "ERR") for i in ok["items"]))))
    return tuple(out)


def writer_script(rng, cache, n, max_len, modes=("sync", "async")):
    """Writer-heavy population: growing/shrinking chunks through the staging buffer, declared sizes on
    both sides, abandoned writers, rejected commits, followed by reads."""
    reqs = []
    keys = ["s1", "s2", "s/3", ""]
    for i in range(n):
        m = modes[i % len(modes)]
        ln = rng.choice([0, 1, 2, 5, 100, 1000, 4096, 4097, min(max_len, 20000), max_len])
        data = gen.data(rng, ln)
        _shape, lens = gen.chunking(rng, ln)
        chunks = [{"hex": c.hex()} for c in gen.split(data, lens)]
        opts = {"algo": rng.choice(gen.ALGOS)}
        r = rng.random()
        if r < 0.35:
            opts["size"] = ln
        elif r < 0.45:
            opts["size"] = ln + 1
        elif r < 0.55:
            opts["size"] = max(0, ln - 1)
        if rng.random() < 0.1:
            opts["sri"] = ref.sri("sha256", data + b"x")
        finals = ["commit", "commit", "commit", "drop", "flush_drop"] + (["busy_drop", "close_drop", "close_commit"] if m == "async" else [])
        q = {"op": "writer", "mode": m, "cache": cache, "opts": opts, "chunks": chunks, "final": rng.choice(finals)}
        k = rng.choice(keys)
        if rng.random() < 0.7:
            q["key"] = k
        if lens and rng.random() < 0.4:
            q["flush_after"] = [rng.randrange(len(lens))]
        reqs.append(q)
        if rng.random() < 0.5:
            reqs.append({"op": "read", "mode": m, "cache": cache, "key": k})
        if rng.random() < 0.3:
            reqs.append({"op": "reader", "mode": m, "cache": cache, "key": k, "bufs": [rng.choice([1, 7, 1024, 8192])]})
        if rng.random() < 0.2:
            reqs.append({"op": "metadata", "mode": m, "cache": cache, "key": k})
        if rng.random() < 0.1:
            reqs.append({"op": "remove", "mode": m, "cache": cache, "key": k})
    reqs.append({"op": "tmp_quiesce", "cache": cache, "timeout_ms": 5000})
    reqs.append({"op": "list", "mode": "sync", "cache": cache})
    return reqs


def relocate(reqs, old, new):
    return json.loads(json.dumps(reqs).replace(old, new))


def run_plain(ctx, variant, reqs, workdir):
    resps, rc, err, to = drv.run_script(variant, reqs, workdir, timeout=600)
    return [norm(r) for r in resps], rc, to


def compare(ctx, label, prop, base_views, views, reqs):
    if len(views) != len(base_views):
        ctx.inconc(f"{label}: {len(views)} responses vs {len(base_views)} from the release build")
        return 0
    bad = 0
    for i, (a, b) in enumerate(zip(base_views, views)):
        if a != b:
            # quiesce polls / timing dependent fields are not compared
            if reqs[i]["op"] in ("tmp_quiesce",):
                continue
            # busy_drop depends on scheduling
            if reqs[i].get("final") == "busy_drop":
                continue
            if "HARNESS-PANIC" in (a[:1] + b[:1]):
                ctx.inconc(f"{label}: request {i} ({reqs[i]['op']}): the driver itself failed: {(a if a[0] == 'HARNESS-PANIC' else b)[1]}")
                break
            bad += 1
            ctx.violation(f"sanitizer-replay|{label}|result-differs|{reqs[i]['op']}",
                          f"{label}: request {i} ({reqs[i]['op']}) gives {str(b)[:120]} but the release build gives {str(a)[:120]}",
                          {"steps": [[("sync@astd" if reqs[i].get('mode') == 'sync' else 'async@tok'), reqs[i]]]})
            break
    return bad


def asan(ctx, variant_plain, reqs_for, workdir, label):
    """reqs_for(cache_dir) -> request list. Returns ops executed or 0."""
    variant = "asan-" + variant_plain
    try:
        b = build.ensure(variant)
    except Exception as e:
        ctx.inconc(f"ASan build {variant} unavailable: {str(e)[:200]}")
        return 0
    c1, c2 = os.path.join(workdir, f"{label}-plain", "cache"), os.path.join(workdir, f"{label}-asan", "cache")
    reqs1, reqs2 = reqs_for(c1), None
    reqs2 = relocate(reqs1, c1, c2)
    base, rc0, to0 = run_plain(ctx, variant_plain, reqs1, os.path.join(workdir, f"{label}-plain"))
    resps, rc, err, to = drv.run_script(variant, reqs2, os.path.join(workdir, f"{label}-asan"), timeout=1800, binary=b,
                                        env={"ASAN_OPTIONS": "halt_on_error=1:abort_on_error=0:detect_leaks=1:exitcode=77",
                                             "LSAN_OPTIONS": "exitcode=78"})
    if to:
        ctx.inconc(f"ASan replay {label} timed out")
        return 0
    reports = re.findall(r"ERROR: (AddressSanitizer|LeakSanitizer)[^\n]*", err)
    ctx.count(f"asan_ops[{variant}]", len(resps))
    if reports or rc in (77, 78):
        first = next((ln for ln in err.splitlines() if "cacache" in ln or "cdrv" in ln), err[:200])
        frame = re.sub(r"0x[0-9a-f]+", "", first).strip()[:120]
        ctx.violation(f"sanitizer-replay|{variant}|{(reports or ['exit'])[0]}|{frame}",
                      f"{variant} replay of {label}: {len(reports)} sanitizer report(s), exit {rc}: {err[:400]}",
                      {"stderr": err[:4000]})
    compare(ctx, f"{variant}:{label}", ctx.prop, base, [norm(r) for r in resps], reqs1)
    return len(resps)


def memcheck(ctx, variant_plain, reqs_for, workdir, label):
    if not shutil.which("valgrind"):
        ctx.inconc("valgrind not installed")
        return 0
    b = build.ensure(variant_plain)
    c1, c2 = os.path.join(workdir, f"{label}-plain2", "cache"), os.path.join(workdir, f"{label}-vg", "cache")
    reqs1 = reqs_for(c1)
    reqs2 = relocate(reqs1, c1, c2)
    base, _rc, _to = run_plain(ctx, variant_plain, reqs1, os.path.join(workdir, f"{label}-plain2"))
    wrapper = ["valgrind", "-q", "--error-exitcode=99", "--leak-check=full", "--errors-for-leak-kinds=definite",
               "--show-leak-kinds=definite", "--track-origins=no"]
    resps, rc, err, to = drv.run_script(variant_plain, reqs2, os.path.join(workdir, f"{label}-vg"), timeout=3000,
                                        wrapper=wrapper, binary=b)
    if to:
        ctx.inconc(f"memcheck replay {label} timed out")
        return 0
    ctx.count("memcheck_ops", len(resps))
    errs = [ln for ln in err.splitlines() if re.match(r"==\d+== (Invalid|Conditional jump|Use of uninit|Syscall param|.*definitely lost|Mismatched|Source and dest)", ln)]
    if rc == 99 or errs:
        blocks = err.split("\n==")
        mine = [ln for ln in err.splitlines() if "cacache" in ln]
        frame = re.sub(r"==\d+==|0x[0-9A-F]+:", "", (mine or errs or ["?"])[0]).strip()[:120]
        ctx.violation(f"sanitizer-replay|memcheck|{re.sub(r'==[0-9]+== ', '', (errs or ['error'])[0])[:40]}|{frame}",
                      f"valgrind memcheck on the release driver ({label}): {len(errs)} error line(s): {(errs or [''])[0]}",
                      {"stderr": err[:5000]})
    compare(ctx, f"memcheck:{label}", ctx.prop, base, [norm(r) for r in resps], reqs1)
    return len(resps)


def miri(ctx, variant, reqs_for, workdir, label, many_seeds=None):
    """variant: miri-tok | miri-sync. One `cargo miri run` per call."""
    build.ensure(variant)   # prepares the crate dir
    cd = build.crate_dir(variant)
    c1, c2 = os.path.join(workdir, f"{label}-plain3", "cache"), os.path.join(workdir, f"{label}-miri", "cache")
    reqs1 = reqs_for(c1)
    # Miri builds carry no mmap feature and (miri-sync) no runtime: route accordingly
    if variant == "miri-sync":
        reqs1 = [q for q in reqs1 if q.get("mode", "sync") == "sync"]
    reqs2 = relocate(reqs1, c1, c2)
    base, _rc, _to = run_plain(ctx, "tok", reqs1, os.path.join(workdir, f"{label}-plain3"))
    os.makedirs(os.path.join(workdir, f"{label}-miri"), exist_ok=True)
    script = os.path.join(workdir, f"{label}-miri", "script.jsonl")
    out = os.path.join(workdir, f"{label}-miri", "out.jsonl")
    with open(script, "w") as f:
        for q in reqs2:
            f.write(json.dumps(q) + "\n")
    env = build.build_env(variant)
    flags = "-Zmiri-disable-isolation -Zmiri-ignore-leaks" if variant == "miri-tok" else "-Zmiri-disable-isolation"
    # cargo-miri hands the interpreted program the environment of its BUILD step, not of this run: parameters travel
    # as arguments or through -Zmiri-env-set
    outdir = os.path.join(workdir, f"{label}-miri")
    env["MIRIFLAGS"] = flags + f" -Zmiri-env-set=CV_TOKIO_WORKERS=1 -Zmiri-env-set=CV_OUT_DIR={outdir}"
    cmd = build.cargo_cmd(variant, "run") + ["--", "run", script, out, outdir]
    t0 = time.time()
    try:
        p = subprocess.run(cmd, cwd=cd, env=env, stdout=subprocess.PIPE, stderr=subprocess.PIPE, timeout=3000)
    except subprocess.TimeoutExpired:
        ctx.inconc(f"Miri replay {label} timed out")
        return 0
    err = p.stderr.decode("utf-8", "replace")
    resps = []
    try:
        for line in open(out):
            if line.strip():
                resps.append(json.loads(line))
    except OSError:
        pass
    ctx.count(f"miri_ops[{variant}]", len(resps))
    ctx.extra.setdefault("miri_wall_s", {})[label] = round(time.time() - t0, 1)
    if "unsupported operation" in err and "Undefined Behavior" not in err:
        m = re.search(r"unsupported operation: ([^\n]*)", err)
        ctx.inconc(f"Miri ({variant}, {label}) stopped at an unsupported operation after {len(resps)} responses: {m.group(1)[:150] if m else ''}")
        return len(resps)
    if "Undefined Behavior" in err or "Data race detected" in err or "memory leaked" in err:
        m = re.search(r"error: ([^\n]*)", err)
        frames = [ln.strip() for ln in err.splitlines() if "src/" in ln and ("cacache" in ln or "/repo/" in ln)]
        frame = re.sub(r"\s+", " ", frames[0])[:120] if frames else "?"
        ctx.violation(f"sanitizer-replay|{variant}|{(m.group(1) if m else 'error')[:60]}|{frame}",
                      f"Miri ({variant}) on {label}: {m.group(1)[:300] if m else err[:300]}", {"stderr": err[-5000:]})
        return len(resps)
    if p.returncode != 0 and not resps:
        ctx.inconc(f"Miri ({variant}, {label}) failed to run: {err[-300:]}")
        return 0
    compare(ctx, f"{variant}:{label}", ctx.prop, base, [norm(r) for r in resps], reqs1)
    return len(resps)
