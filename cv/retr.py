"""Retrieval entry points (checked and unchecked) as driver requests."""
import os

SYNC_ONLY = {"hard_link_hash", "hard_link_unchecked", "hard_link_hash_unchecked", "reflink_hash_unchecked"}

CHECKED_WHOLE = ["read", "read_hash"]
CHECKED_STREAM = ["reader_key", "reader_hash"]
CHECKED_EXTRACT = ["copy", "copy_hash", "hard_link", "hard_link_hash", "reflink", "reflink_hash"]
UNCHECKED_EXTRACT = ["copy_unchecked", "copy_hash_unchecked", "hard_link_unchecked", "hard_link_hash_unchecked",
                     "reflink_unchecked", "reflink_hash_unchecked"]

# a buffer-size pattern, or ("to_end", k, pattern): k plain reads, then the rest through read_to_end() - the standard
# library / runtime then polls the reader with a buffer that is already partly filled
BUFSETS = [[1], [7], [1024], [8192], [65536], [7, 0, 1024], [1, 8192], [16, 8192, 3], [100, 65536], [4096, 1, 16384],
           ("to_end", 0, [8192]), ("to_end", 1, [7]), ("to_end", 2, [1024, 1])]


def reader_fields(bufs):
    if isinstance(bufs, tuple):
        return {"bufs": list(bufs[2]), "to_end_after": bufs[1]}
    return {"bufs": bufs or [8192]}


def available(name, mode):
    return not (mode.startswith("async") and name in SYNC_ONLY)


def request(name, cache, key, sri, dest=None, bufs=None):
    by_key = not (name.endswith("_hash") or "_hash_" in name or name == "reader_hash")
    if name in ("reader_key", "reader_hash"):
        r = dict({"op": "reader", "cache": cache}, **reader_fields(bufs))
    else:
        r = {"op": name, "cache": cache}
    if by_key:
        r["key"] = key
    else:
        r["sri"] = sri
    if dest is not None:
        r["to"] = dest
    return r


def read_dest(path):
    """(kind, bytes|None): kind in absent|file|symlink|dir"""
    try:
        st = os.lstat(path)
    except FileNotFoundError:
        return "absent", None
    import stat
    if stat.S_ISLNK(st.st_mode):
        try:
            with open(path, "rb") as f:
                return "symlink", f.read()
        except OSError:
            return "symlink", None
    if stat.S_ISDIR(st.st_mode):
        return "dir", None
    with open(path, "rb") as f:
        return "file", f.read()
