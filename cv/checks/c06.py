"""C06 — damage to an index file is contained to the damaged records.

Two independent oracles (analytic span bookkeeping; reference re-parse), a
phantom check, and sync/async agreement."""
import os

from .. import drv, ev, gen, ref
from ..model import entry_diffs

MODES3 = ["sync@astd", "async@astd", "async@tok"]


def build_bucket(ctx, rng, cache, key, nrec):
    """Insert nrec records for `key` through the library (raw index insert with
    explicit fields) plus foreign-key records through the reference writer.
    Returns (bucket path, [record dicts with spans], written entries)."""
    written = []
    reqs = []
    for j in range(nrec):
        r = rng.random()
        if r < 0.2:
            reqs.append(("lib", {"op": "index_delete", "cache": cache, "key": key}))
        elif r < 0.35:
            reqs.append(("foreign", f"foreign-{j}-{rng.randrange(1000)}"))
        else:
            data = f"value-{j}".encode()
            opts = {"sri": ref.sri(rng.choice(ref.HASHLIB_ALGOS), data), "time": str(1000 + j), "size": len(data)}
            if rng.random() < 0.6:
                opts["metadata"] = rng.choice([{"n": j}, "sé中\U0001F600", [1, 2.5, None], {"deep": {"x": [j]}}, "tab\t\"q\""])
            if rng.random() < 0.3:
                opts["raw_metadata"] = bytes([j, 255, 0]).hex()
            reqs.append(("lib", {"op": "index_insert", "cache": cache, "key": key, "opts": opts}))
    p = ref.bucket_path(cache, key)
    for kind, q in reqs:
        if kind == "lib":
            r = ctx.call(rng.choice(MODES3), q)
            if not ev.is_ok(r):
                raise RuntimeError(f"setup insert failed: {ev.brief(r)}")
        else:
            js = ref.entry_json(q, ref.sri("sha256", q.encode()), 77, len(q), {"foreign": True})
            ref.append_record(cache, q, js, bucket_key=key)
    with open(p, "rb") as f:
        raw = f.read()
    # spans: every record starts at a '\n'
    starts = [i for i in range(len(raw)) if raw[i:i + 1] == b"\n"]
    recs = []
    for a, b in zip(starts, starts[1:] + [len(raw)]):
        ent = ref.parse_bucket(raw[a:b])
        assert len(ent) == 1, "pristine record does not parse"
        recs.append({"start": a, "end": b, "entry": ent[0]})
    assert len(recs) == nrec
    for r, (kind, q) in zip(recs, reqs):
        r["req"] = q if kind == "lib" else None
    return p, raw, recs


def analytic_expect(raw, new, recs):
    """Records that are intact after replacing raw by new where new has the same
    length and differs only in some bytes (flip/overwrite)."""
    assert len(raw) == len(new)
    changed = [i for i in range(len(raw)) if raw[i] != new[i]]
    intact = []
    for i, r in enumerate(recs):
        lo, hi = r["start"], r["end"]
        term_ok = hi >= len(raw) or hi not in changed
        if term_ok and not any(lo <= c < hi for c in changed):
            intact.append(r["entry"])
    return intact


def entry_view(e):
    """Comparable form of a reference entry."""
    return (e["key"], e["integrity"], e["time"], e["size"], repr(e["metadata"]), e["raw_metadata"])


def obs_view(o):
    return (o["key"], o["integrity"], int(o["time"]), o["size"], repr(o["metadata"]),
            bytes.fromhex(o["raw_metadata"]) if o["raw_metadata"] is not None else None)


def run(ctx):
    rng = ctx.rng
    modes = MODES3 if ctx.quick else MODES3 + ["sync@tok"]
    ctx.rule = ("bucket = 1-6 records (writes, tombstones, foreign-key records) of one bucket file; damage classes: "
                "EACH record cut at EVERY byte length (torn append), EVERY single-bit flip of buckets <= 600 bytes, "
                "overwrite of a random span with random bytes / NULs / invalid UTF-8, garbage lines inserted between "
                "records (with and without own newline), a fragment duplicated or moved; then 0-2 further appends "
                "through the API (fresh inserts, removals, and byte-identical REPLAYS of earlier inserts incl. the one whose "
                "record was damaged; the last acknowledged one decides the lookup); then metadata() in sync and both async runtimes and list_sync. Oracles: analytic "
                "(span bookkeeping), reference re-parse, phantom check, sync/async agreement. distinct = (damage "
                "class, position, records in bucket, appends)")
    ctx.assumptions = ["a line that only becomes valid when one trailing CR is stripped may be accepted or rejected",
                       "records whose integrity string is malformed are outside the property"]
    nbuckets = 3 if ctx.quick else 14
    nrandom = 200 if ctx.quick else 6000
    plans = []
    for b in range(nbuckets):
        cache = ctx.new_cache()
        key = rng.choice(["k", "kéy-ü", "a/b", "tab\tkey", "\U0001F600"]) + str(b)
        nrec = 1 + b % 6
        p, raw, recs = build_bucket(ctx, rng, cache, key, nrec)
        plans.append((cache, key, p, raw, recs))
    written_all = {}
    for (cache, key, p, raw, recs) in plans:
        written = {entry_view(r["entry"]) for r in recs}
        cases = []
        # (1) cuts: each record at every length
        for i, r in enumerate(recs):
            step = 1 if (ctx.quick and len(raw) <= 700) or not ctx.quick else 3
            for L in range(0, r["end"] - r["start"], step):
                new = raw[:r["start"] + L] + raw[r["end"]:]
                intact = [x["entry"] for j, x in enumerate(recs) if j != i]
                cases.append(("cut", (i, L), new, intact))
        # (2) flips
        if len(raw) <= 600 or not ctx.quick:
            span = range(len(raw)) if len(raw) <= 600 else rng.sample(range(len(raw)), 600)
            for pos in span:
                for bit in range(8):
                    d = bytearray(raw)
                    d[pos] ^= 1 << bit
                    new = bytes(d)
                    cases.append(("flip", (pos, bit), new, analytic_expect(raw, new, recs)))
        # (3..5) random damage
        for _ in range(nrandom // len(plans)):
            cls = rng.choice(["overwrite-random", "overwrite-nul", "overwrite-badutf8", "insert-line", "insert-line-nonl",
                              "dup-fragment", "move-fragment"])
            a = rng.randrange(len(raw))
            ln = rng.randint(1, min(40, len(raw) - a))
            if cls.startswith("overwrite"):
                if cls == "overwrite-random":
                    fill = rng.randbytes(ln)
                elif cls == "overwrite-nul":
                    fill = b"\x00" * ln
                else:
                    fill = (rng.choice([b"\xff\xfe", b"\xe2\x82", b"\xc0\xaf", b"\xf0\x9f\x98", b"\xed\xa0\x80"]) * ln)[:ln]
                new = raw[:a] + fill + raw[a + ln:]
                cases.append((cls, (a, ln), new, analytic_expect(raw, new, recs)))
            elif cls.startswith("insert-line"):
                at = rng.choice([r["start"] for r in recs] + [len(raw)])
                garbage = rng.choice([b"garbage", b"\xff\xfe\xfd", b"0" * 64 + b"\t{}", b"\t\t\t", b"{\"key\":1}",
                                      rng.randbytes(rng.randint(1, 50)).replace(b"\n", b"x"), b"\r", b"",
                                      # valid UTF-8 text whose multi-byte characters straddle every offset around 64
                                      ("x" * rng.randint(0, 5) + rng.choice(["\u00e9", "\u4e2d", "\U0001F600"]) * 60).encode(),
                                      ("a" * rng.randint(58, 70) + "\u00fc\u4e2d\U0001F600" * 4 + "\t{}").encode(),
                                      ("\U0001F4A9" * 40).encode()])
                if rng.random() < 0.35:
                    # built from a real record of this bucket: JSON intact, checksum field short, empty, padded or holed
                    rr = rng.choice(recs)
                    line = raw[rr["start"] + 1:rr["end"]]
                    hx, js = line.split(b"\t", 1)
                    k = rng.randrange(0, 64)
                    garbage = rng.choice([b"\t" + js, hx[:k] + b"\t" + js, hx[:k] + hx[k + 2:] + b"\t" + js, hx + b"00\t" + js,
                                          hx[:k & ~1] + b"\t" + js, b" " + hx + b"\t" + js, hx.upper() + b"\t" + js])
                    if cls == "insert-line-nonl":
                        cls = "insert-line"        # these only make sense as lines of their own
                ins = (b"\n" + garbage) if cls == "insert-line" else garbage
                new = raw[:at] + ins + raw[at:]
                cases.append((cls, (at, len(ins)), new, None))
            else:
                frag = raw[a:a + ln]
                at = rng.randrange(len(raw))
                if cls == "dup-fragment":
                    new = raw[:at] + frag + raw[at:]
                else:
                    rest = raw[:a] + raw[a + ln:]
                    at = min(at, len(rest))
                    new = rest[:at] + frag + rest[at:]
                cases.append((cls, (a, ln, at), new, None))
        for (cls, pos, new, analytic) in cases:
            nappend = rng.choice([0, 0, 1, 2]) if cls != "flip" or rng.random() < 0.1 else 0
            with open(p, "wb") as f:
                f.write(new)
            appended = []
            acked = 0
            last_app = None
            for j in range(nappend):
                rr = rng.random()
                replayable = [x["req"] for x in recs if x.get("req") and x["req"]["op"] == "index_insert"]
                if rr < 0.25:
                    q = {"op": "index_delete", "cache": cache, "key": key}
                elif rr < 0.55 and replayable:
                    # the caller simply repeats an insert it made before (most often the newest one, whose record may be
                    # the damaged one): byte-identical request, same explicit time
                    q = dict(replayable[-1] if rng.random() < 0.7 else rng.choice(replayable))
                    ctx.count("replayed_inserts_after_damage")
                else:
                    d = f"appended-{j}".encode()
                    q = {"op": "index_insert", "cache": cache, "key": key,
                         "opts": {"sri": ref.sri("sha256", d), "time": str(5000 + j), "size": len(d)}}
                r = ctx.call(rng.choice(modes), q)
                if not ev.is_ok(r):
                    ctx.violation(f"{cls}|append-after-damage|{ev.variant(r)}",
                                  f"append to a damaged bucket failed: {ev.brief(r)}", {"damage": [cls, pos]})
                else:
                    acked += 1
                    last_app = q
            with open(p, "rb") as f:
                final = f.read()
            tail = final[len(new):]
            app_entries = ref.parse_bucket(tail) if tail else []
            strict, lenient = ref.parse_bucket(final, variants=True)
            exp_strict, exp_len = ref.fold(strict, key), ref.fold(lenient, key)
            allowed_lookup = [exp_strict] if (exp_strict is None) == (exp_len is None) and (
                exp_strict is None or entry_view(exp_strict) == entry_view(exp_len)) else [exp_strict, exp_len]
            # harness self-check: the two oracles must agree
            if analytic is not None:
                a_exp = ref.fold(analytic + app_entries, key)
                if not any((a_exp is None and x is None) or (a_exp is not None and x is not None and
                                                             entry_view(a_exp) == entry_view(x)) for x in allowed_lookup):
                    ctx.inconc(f"oracle disagreement on {cls}@{pos}: analytic {a_exp and a_exp['time']} vs reference "
                               f"{exp_strict and exp_strict['time']}")
                    continue
            everwritten = written | {entry_view(e) for e in app_entries}
            results = {}
            for m in modes:
                r = ctx.call(m, {"op": "metadata", "cache": cache, "key": key})
                results[m] = r
            lst = ctx.call("sync@astd", {"op": "list", "cache": cache})
            nrecs = len(recs)
            ctx.case(distinct_key=(cls, pos, nrecs, nappend),
                     sample={"damage": cls, "position": pos, "records": nrecs, "appends": nappend, "bucket_len": len(raw),
                             "expected_time": exp_strict and exp_strict["time"]}
                     if ctx.counters["evaluations"] % 997 == 0 else None)
            ctx.count(f"damage[{cls}]")
            if b"\n" in bytes(x for x, y in zip(raw, new) if x != y) if len(raw) == len(new) else False:
                ctx.count("newline_destroyed")
            try:
                final.decode("utf-8")
            except UnicodeDecodeError:
                ctx.count("buckets_with_invalid_utf8")
            det = {"damage": [cls, pos], "key": key, "bucket_hex": final[:1500].hex(), "appends": nappend,
                   "expected": exp_strict and {k: str(v)[:80] for k, v in exp_strict.items()},
                   "steps": [["harness", {"write_bucket_hex": final[:1500].hex(), "key": key}],
                             ["sync@astd", {"op": "metadata", "cache": "<cache>", "key": key}]]}
            # the last acknowledged operation after the damage decides the lookup - whatever the damage before it (an
            # implementation may legitimately skip an append that changes nothing, so records are not counted)
            if last_app is not None and acked == nappend:
                for m, r in results.items():
                    o = r.get("ok", {}).get("entry") if ev.is_ok(r) else "?"
                    if last_app["op"] == "index_delete":
                        okay = o is None
                    else:
                        lo = last_app["opts"]
                        okay = (isinstance(o, dict) and o["integrity"] == lo["sri"] and int(o["time"]) == int(lo["time"])
                                and o["size"] == lo["size"])
                    if not okay:
                        ctx.violation(f"{cls}|metadata@{m}|append-after-damage-not-effective",
                                      f"{cls}@{pos}: the last acknowledged operation after the damage was {last_app['op']}"
                                      f"({str(last_app.get('opts', ''))[:120]}) but metadata in {m} returned "
                                      f"{o if not isinstance(o, dict) else ('time=' + o['time'] + ' ' + o['integrity'][:24])}",
                                      dict(det, last_append=last_app))
                        break
            views = {}
            for m, r in results.items():
                ctx.count("lookups_compared")
                if not ev.is_ok(r):
                    ctx.violation(f"{cls}|metadata@{m}|{ev.variant(r)}", f"lookup on a damaged bucket ({cls}@{pos}) in {m} "
                                  f"gave {ev.brief(r)}", det)
                    continue
                o = r["ok"]["entry"]
                views[m] = None if o is None else obs_view(o)
                okay = any((o is None and x is None) or (o is not None and x is not None and obs_view(o) == entry_view(x))
                           for x in allowed_lookup)
                if not okay:
                    if o is not None and obs_view(o) not in everwritten:
                        kind = "phantom"
                    elif o is None or (exp_strict is not None and int(o["time"]) < exp_strict["time"]):
                        kind = "missed-intact-record"
                    else:
                        kind = "used-damaged-record"
                    ctx.violation(f"{cls}|metadata@{m}|{kind}",
                                  f"{cls}@{pos}: metadata in {m} returned {o and ('time=' + o['time'])}, the undamaged "
                                  f"records imply {exp_strict and ('time=' + str(exp_strict['time']))}", det)
                ctx.count("phantom_checks")
                if o is not None and obs_view(o) not in everwritten:
                    ctx.violation(f"{cls}|metadata@{m}|phantom-entry", f"{cls}@{pos}: returned an entry that no insert "
                                  f"ever wrote: {str(o)[:200]}", det)
            if len(set(map(repr, views.values()))) > 1 and len(allowed_lookup) == 1:
                ctx.violation(f"{cls}|sync-async-disagree", f"{cls}@{pos}: flavours disagree: "
                              f"{ {m: (v and v[2]) for m, v in views.items()} }", det)
            # listing
            ctx.count("listings_compared")
            if not ev.is_ok(lst):
                ctx.violation(f"{cls}|list|{ev.variant(lst)}", f"{cls}@{pos}: list gave {ev.brief(lst)}", det)
            else:
                items = lst["ok"]["items"]
                errs = [i for i in items if "err" in i]
                got = {}
                for it in items:
                    if "err" not in it:
                        got[it["key"]] = obs_view(it)
                e_s = {k: entry_view(v) for k, v in ref.fold_all(strict).items()}
                e_l = {k: entry_view(v) for k, v in ref.fold_all(lenient).items()}
                if errs:
                    ctx.violation(f"{cls}|list|error-item", f"{cls}@{pos}: list yielded an error item {str(errs[0])[:150]}", det)
                elif got != e_s and got != e_l:
                    ph = [k for k, v in got.items() if v not in everwritten]
                    kind = "phantom" if ph else "missed-or-stale"
                    ctx.violation(f"{cls}|list|{kind}", f"{cls}@{pos}: list yields keys {sorted(got)} (times "
                                  f"{sorted(v[2] for v in got.values())}), undamaged records imply {sorted(e_s)} (times "
                                  f"{sorted(v[2] for v in e_s.values())})", det)
        with open(p, "wb") as f:
            f.write(raw)
    ctx.extra["buckets"] = [{"records": len(r), "bytes": len(raw)} for (_c, _k, _p, raw, r) in plans]
