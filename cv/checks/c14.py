"""C14 — abandoned or rejected writes leave no trace in the index or temp area."""
import os

from .. import drv, ev, gen, hist, ref
from ..model import Model

MIB = gen.MIB


def stray(cache):
    out = []
    try:
        tops = os.listdir(cache)
    except FileNotFoundError:
        return out
    for t in tops:
        if t in ("index-v5", "content-v2"):
            continue
        p = os.path.join(cache, t)
        if os.path.isdir(p) and not os.path.islink(p):
            for dp, _dn, fn in os.walk(p):
                out.extend(os.path.join(dp, f) for f in fn)
        else:
            out.append(p)
    return out


def snapshot_reqs(cache, keys):
    out = [{"op": "list", "cache": cache, "mode": "sync"}]
    for k in keys:
        out.append({"op": "metadata", "cache": cache, "key": k})
        out.append({"op": "read", "cache": cache, "key": k})
    return out


def norm(resps):
    import hashlib
    out = []
    for r in resps:
        if "ok" in r and "items" in r["ok"]:
            out.append(sorted((str(i) for i in r["ok"]["items"])))
        elif "ok" in r and "data" in r["ok"]:
            d = r["ok"]["data"]
            if "_digest" not in d:
                b = drv.data_bytes(d)
                d.clear()
                d["_digest"] = (len(b), hashlib.sha1(b).hexdigest())
            out.append(("data",) + tuple(d["_digest"]))
        else:
            out.append({k: v for k, v in r.items() if k in ("ok", "err", "panic", "hang", "died")})
    return out


def run(ctx):
    rng = ctx.rng
    modes = drv.QUICK_MODES if ctx.quick else drv.ALL_MODES
    n = 1500 if ctx.quick else 12000
    ctx.rule = ("case = (mode, abandonment point, size regime incl. both sides of the 1 MiB mmap threshold, "
                "keyed/by-address, declared size?); abandonment points: right after open, after k chunks, write in "
                "flight (future polled once, then dropped), after flush, after close()/shutdown(), commit rejected "
                "by size, commit rejected by integrity, commit failing for an I/O reason (a regular file where the shard directory "
                "must be; the temp area is also listed while the returned error is still alive); interleaved with successful writes to the same and other "
                "keys. After each: listing + metadata of all keys compared before/after, and once the driver's "
                "tmp_quiesce returned, a census of regular files under the cache root outside index-v5/ and "
                "content-v2/. distinct = distinct (mode, point, size regime, keyed, declared) tuples")
    ctx.assumptions = ["a temp file still present after 10 s of polling is leaked (re-checked 3 times)"]
    cache = ctx.new_cache()
    keys = ["alpha", "beta", "a/b", "", "kéy"]
    model = Model()
    maxpolls = 0
    leaks_found = 0
    for i in range(n):
        mode = modes[i % len(modes)]
        is_async = mode.startswith("async")
        points = ["open_drop", "chunks_drop", "flush_drop", "reject_size", "reject_integrity", "reject_size_more",
                  "io_failed_commit"]
        if is_async:
            points += ["busy_drop", "close_drop", "close_commit"]
        point = points[(i // len(modes)) % len(points)]
        keyed = rng.random() < 0.7
        key = rng.choice(keys)
        r = rng.random()
        if r < 0.08:
            ln = rng.choice([MIB - 1, MIB, MIB + 1])
        elif r < 0.5:
            ln = rng.choice([1, 2, 100, 4096, 4097, 70000])
        else:
            ln = rng.randint(1, 5000)
        data = gen.data(rng, ln)
        committed = [e for e in model.index.values()]
        shared_content = False
        if committed and rng.random() < 0.3:
            # abandon / reject exactly the bytes some committed entry relies on
            e = rng.choice(committed)
            cand = model.content[ref.sri_address(e["integrity"])]
            if len(cand) > 0:
                data, ln, shared_content = cand, len(cand), True
        declared = rng.random() < 0.5
        opts = {}
        if declared:
            opts["size"] = ln
        shape, lens = gen.chunking(rng, ln, shape=rng.choice(["one", "halves", "random", "tail1", "empties"]))
        chunks = gen.split(data, lens)
        final = "drop"
        if point == "open_drop":
            chunks = []
        elif point == "chunks_drop":
            chunks = chunks[:rng.randint(1, len(chunks))]
        elif point == "flush_drop":
            final = "flush_drop"
        elif point == "busy_drop":
            final = "busy_drop"
        elif point == "close_drop":
            final = "close_drop"
        elif point == "close_commit":
            final = "close_commit"
        elif point == "reject_size":
            opts["size"] = ln + rng.choice([1, 7, ln])
            final = "commit"
        elif point == "reject_size_more":
            # fewer bytes declared than supplied: by a few, by half, by most - with any chunking, so that whole chunks
            # may arrive after the declared size has been crossed
            opts["size"] = rng.choice([x for x in (ln - 1, ln - min(ln, 3), ln // 2, ln // 10, 1) if 0 <= x < ln])
            if rng.random() < 0.6:
                chunks = gen.split(data, gen.chunking(rng, ln)[1])
            final = "commit"
        elif point == "reject_integrity":
            opts["sri"] = ref.sri("sha256", data + b"x")
            if rng.random() < 0.3:
                # the digest of OTHER data, declared in an algorithm the writer does not compute (it hashes with sha256):
                # whatever an implementation makes of foreign algorithms, this one must be refused
                opts["sri"] = ref.sri(rng.choice(["sha512", "sha1", "sha384"]), data + b"x")
            others = [e for e in model.index.values() if model.content.get(ref.sri_address(e["integrity"])) not in (None, data)
                      and e["integrity"].startswith("sha256-")]
            if others and rng.random() < 0.5:
                # declare the address of content that IS in the cache (some other entry's), while writing different bytes
                opts["sri"] = rng.choice(others)["integrity"]
                shared_content = True
            final = "commit"
        if i % 25 == 11 and committed:
            # a large declared size (no mmap, possibly preallocated), far fewer bytes, the bytes of a committed entry
            e = rng.choice(committed)
            cand = model.content[ref.sri_address(e["integrity"])]
            if len(cand) > 0:
                data, ln, shared_content = cand, len(cand), True
                opts = {"size": rng.choice([MIB + 1, MIB + 4096, 2 * MIB + 7])}
                chunks = gen.split(data, gen.chunking(rng, ln, shape="halves")[1])
                point, final = "reject_size", "commit"
        obstacle = None
        if point == "io_failed_commit":
            # the commit fails for an I/O reason: where the content's shard directory has to be, there is a regular file
            final = "commit"
            shared_content = False
            data = rng.randbytes(max(1, ln))
            ln = len(data)
            chunks = gen.split(data, gen.chunking(rng, ln)[1])
            opts = {"size": ln} if declared else {}
            hx = ref.sri_address(ref.sri("sha256", data))[1]
            shard = os.path.join(cache, "content-v2", "sha256", hx[:2])
            if not os.path.exists(shard):
                os.makedirs(os.path.dirname(shard), exist_ok=True)
                with open(shard, "wb") as f:
                    f.write(b"in the way")
                obstacle = shard
            else:
                point = "chunks_drop"      # that shard is already in use: an ordinary abandoned writer instead
                final = "drop"
        req = {"op": "writer", "cache": cache, "opts": opts, "chunks": [ctx.data(c) for c in chunks], "final": final,
               "watch_tmp_on_error": True}
        if keyed:
            req["key"] = key
        target_cache = cache
        if point in ("reject_size", "reject_integrity", "reject_size_more", "chunks_drop", "open_drop") and rng.random() < 0.12:
            # the same on a cache that has never had a successful commit: the listing of a directory without an index
            # must not change either (nor may index directories appear)
            target_cache = ctx.new_cache()
            req["cache"] = target_cache
            ctx.count("writers_on_fresh_cache")
        snap = snapshot_reqs(target_cache, keys)
        if not point.startswith("reject") and point not in ("close_commit", "io_failed_commit") and ln:
            # a writer that is merely dropped (after any number of chunks, a flush or a close) must not make its bytes
            # reachable by address either
            a_sri = ref.sri("sha256", data)
            snap = snap + [{"op": "exists", "cache": target_cache, "sri": a_sri}, {"op": "read_hash", "cache": target_cache, "sri": a_sri}]
        # generous while the temp area behaves; once a permanent leak has been established there is no point in
        # waiting 10 s for every further case
        qms = 10000 if leaks_found == 0 else 200
        reqs = snap + [req, {"op": "tmp_quiesce", "cache": target_cache, "timeout_ms": qms}] + snap
        resps = ctx.batch(mode, reqs, timeout=60)
        ns = len(snap)
        before, w, q, after = resps[:ns], resps[ns], resps[ns + 1], resps[ns + 2:]
        if obstacle:
            os.unlink(obstacle)
        regime = "<=1MiB" if ln <= MIB else ">1MiB"
        dk = (mode, point, regime, keyed, declared, shared_content)
        ctx.case(distinct_key=dk, sample={"mode": mode, "point": point, "len": ln, "keyed": keyed,
                                          "declared": opts.get("size"), "chunks": [len(c) for c in chunks][:8],
                                          "result": ev.variant(w), "quiesce": q.get("ok")})
        ctx.count(f"abandon[{point}]")
        if ev.is_ok(w) and w["ok"].get("busy"):
            ctx.count("writes_abandoned_while_blocking_task_in_flight")
        sig = f"{mode}|{point}|{regime}|{'keyed' if keyed else 'hash'}|{'declared' if declared else 'undeclared'}"
        det = {"steps": [[mode, req]], "response": w}
        v = ev.variant(w)
        if point.startswith("reject"):
            want = "IntegrityError" if point == "reject_integrity" else "SizeMismatch"
            if v != want:
                ctx.violation(sig + f"|{v}", f"commit that must be rejected with {want} gave {ev.brief(w)}", det)
        elif point == "io_failed_commit":
            if v != "IoError":
                ctx.violation(sig + f"|{v}", f"commit into a content area whose shard directory is a regular file gave {ev.brief(w)}", det)
        elif point == "close_commit":
            if v == "PANIC" or v in ("HANG", "DIED"):
                ctx.violation(sig + f"|{v}", f"commit after close gave {ev.brief(w)}", det)
        elif v != "Ok":
            ctx.violation(sig + f"|{v}", f"abandoning a writer ({point}) reported {ev.brief(w)}", det)
        # a failed commit has consumed the writer: nothing of it may be left while the caller still holds the error
        alive = (w.get("err") or {}).get("stray_while_error_alive") if isinstance(w.get("err"), dict) else None
        if alive:
            ctx.count("temp_files_alive_with_error")
            ctx.violation(sig + "|tmp-alive-while-error-held", f"{point}: commit failed ({v}) and the writer is gone, but while the "
                          f"caller holds the returned error {len(alive)} temp file(s) are still there: "
                          f"{[os.path.relpath(x, cache) for x in alive[:3]]}", det)
        elif alive is not None:
            ctx.count("failed_commits_inspected_while_error_alive")
        if "bg_panic" in w:
            ctx.violation(sig + "|bg_panic", f"background panic while abandoning a writer: {w['bg_panic']}", det)
        # (1) no effect on lookups / listings, except a commit that legitimately succeeded
        committed_now = (point == "close_commit" and v == "Ok")
        if not committed_now and norm(before) != norm(after):
            ctx.violation(sig + "|lookup-changed", f"{point}: listing/lookup results differ before and after",
                          dict(det, before=norm(before), after=norm(after)))
        if committed_now and keyed:
            model.commit(key, w["ok"]["sri"], data, size=opts.get("size"))
        ctx.count("state_comparisons")
        # (2) temp area empty once quiescent
        left = []
        if ev.is_ok(q):
            maxpolls = max(maxpolls, q["ok"].get("polls", 0))
            left = q["ok"].get("left", [])
        py_left = stray(cache) + (stray(target_cache) if target_cache != cache else [])
        ctx.count("tmp_censuses")
        if left or py_left:
            # re-check: permanent leak or just slow?
            again = []
            for _ in range(3 if leaks_found == 0 else 1):
                q2 = ctx.call(mode, {"op": "tmp_quiesce", "cache": cache, "timeout_ms": 3000 if leaks_found == 0 else 100})
                again = stray(cache)
                if not again:
                    break
            if again:
                leaks_found += 1
                ctx.violation(sig + "|tmp-left", f"{point}: {len(again)} file(s) left outside index/content after the "
                              f"writer was gone: {[os.path.relpath(x, cache) for x in again[:3]]}", det)
                for x in again:
                    try:
                        os.unlink(x)
                    except OSError:
                        pass
            else:
                ctx.count("slow_quiesce")
        # interleave successful writes (same and other keys)
        if rng.random() < 0.4:
            k2 = rng.choice(keys)
            d2 = gen.data(rng, rng.choice([0, 3, 5000]))
            wr = ctx.call(mode, {"op": "write", "cache": cache, "key": k2, "data": ctx.data(d2)})
            if ev.is_ok(wr):
                model.commit(k2, wr["ok"]["sri"], d2)
            else:
                ctx.violation(sig + "|later-write-failed", f"a later ordinary write failed: {ev.brief(wr)}", det)
            rd = ctx.call(mode, {"op": "read", "cache": cache, "key": k2})
            if not ev.is_ok(rd) or drv.data_bytes(rd["ok"]["data"]) != d2:
                ctx.violation(sig + "|later-read-wrong", f"read after a later write gave {ev.brief(rd)}", det)
    # final: model vs cache for all keys (nothing became reachable without a successful commit)
    for k in keys:
        r = ctx.call("sync@astd", {"op": "read", "cache": cache, "key": k})
        cls, d = model.read(k)
        got = drv.data_bytes(r["ok"]["data"]) if ev.is_ok(r) else None
        if ev.variant(r) != cls or (cls == "Ok" and got != d):
            ctx.violation("final|reachable-data-differs", f"key {k!r}: cache gives {ev.brief(r)}, model {cls}", {})
    ctx.extra["max_quiesce_polls"] = maxpolls
    if not ctx.quick:
        # leak reports: a temp-file handle or blocking-task state that is leaked rather than dropped
        from .. import san
        work = ctx.new_dir("san")
        n = 0
        for v in ("astd", "tok"):
            n += san.asan(ctx, v, lambda c: san.writer_script(rng, c, 400, 100000), work, f"abandon-{v}")
        n += san.miri(ctx, "miri-sync", lambda c: san.writer_script(rng, c, 50, 3000, modes=("sync",)), work, "abandon-mirisync")
        ctx.extra["sanitizer_replay_ops"] = n
