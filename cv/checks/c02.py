"""C02 — what is written under a key or address is exactly what is read back.

Monitor: every write entry point x mode x algorithm x key x data x chunking;
oracle = hashlib digest + byte equality of reads by key and by address, in the
writing mode and in one other mode."""
import os

from .. import crash, drv, ev, gen, ref, sysm
from ..model import Model


def entry_points():
    # (name, keyed, declares_size_possible)
    return ["write", "write_algo", "write_hash", "write_hash_algo", "writer_opts", "writer_opts_size",
            "writer_create", "writer_hash", "writer_hash_size"]


def lenclass(n):
    if n == 0:
        return "len0"
    return "len<=1MiB" if n <= gen.MIB else "len>1MiB"


def make_case(ctx, rng, i, ep, mode, big_share, force_size=None):
    algo = "sha256"
    if ep in ("write_algo", "write_hash_algo") or (ep.startswith("writer") and rng.random() < 0.6):
        algo = rng.choice(gen.ALGOS)
    n = gen.size(rng, big_share) if force_size is None else force_size
    data = gen.data(rng, n)
    key = None
    keyed = ep in ("write", "write_algo", "writer_opts", "writer_opts_size", "writer_create")
    if keyed:
        key = rng.choice(gen.HOSTILE_KEYS) if rng.random() < 0.5 else gen.rand_unicode_key(rng)
    req = {"cache": None}
    shape = "oneshot"
    lens = [n]
    if ep in ("write", "write_algo"):
        req.update(op="write", key=key, data=ctx.data(data))
        if ep == "write_algo":
            req["algo"] = algo
        else:
            algo = "sha256"
    elif ep in ("write_hash", "write_hash_algo"):
        req.update(op="write_hash", data=ctx.data(data))
        if ep == "write_hash_algo":
            req["algo"] = algo
        else:
            algo = "sha256"
    else:
        shape, lens = gen.chunking(rng, n)
        opts = {}
        if ep != "writer_create" or algo != "sha256":
            opts["algo"] = algo
        if ep.endswith("_size"):
            opts["size"] = n
        req.update(op="writer", opts=opts, chunks=[ctx.data(c) for c in gen.split(data, lens)])
        if keyed:
            req["key"] = key
        if ep == "writer_create":
            req["create"] = True
        if rng.random() < 0.3 and lens:
            req["flush_after"] = [rng.randrange(len(lens))]
        elif rng.random() < 0.2 and lens:
            req["vectored"] = True       # all chunks as one gather list (write_vectored)
            shape += "+vectored"
    return {"i": i, "ep": ep, "mode": mode, "algo": algo, "key": key, "data": data, "req": req,
            "shape": shape, "lens": lens, "declared": ep.endswith("_size") or ep in ("write_hash", "write_hash_algo")}


def run(ctx):
    rng = ctx.rng
    modes = drv.QUICK_MODES if ctx.quick else drv.ALL_MODES
    ncases = 4500 if ctx.quick else 40000
    big_share = 0.01 if ctx.quick else 0.03
    ctx.rule = ("case = (entry point, mode, algorithm, key, data length class, chunk shape); generated from "
                "VERIF_SEED over hostile keys, boundary sizes (0,1,4095..4097,1MiB-1..1MiB+1,5MiB) and 9 chunk "
                "shapes, a twelfth of the writes onto an address that is already occupied by something else (same-length copy with "
                "a flipped bit, torn / empty / longer file, dangling or stale symlink), plus a sweep over every size 2^k, 3*2^k and neighbours (k <= 17 quick, 21 thorough); distinct = distinct (entry point, mode, algo, length class, shape, declared) tuples; "
                "a case is non-trivial when it performed a write and at least one read")
    ctx.assumptions = ["hashlib digests are the standard digests", "healthy tmpfs filesystem",
                       "xxh3 digests are checked for determinism and read-back only (no independent implementation)"]
    eps = entry_points()
    model = Model()
    cases = []
    for i in range(ncases):
        ep = eps[i % len(eps)]
        mode = modes[(i // len(eps)) % len(modes)]
        cases.append(make_case(ctx, rng, i, ep, mode, big_share))
    # size sweep: every 2^k, 3*2^k and neighbours, through rotating entry points and modes
    for j, n in enumerate(gen.edge_sizes(17 if ctx.quick else 21)):
        for rep in range(2):
            i = len(cases)
            cases.append(make_case(ctx, rng, i, eps[(2 * j + rep) % len(eps)], modes[(j + rep) % len(modes)], 0, force_size=n))
    ctx.count("size_sweep_cases", 2 * len(gen.edge_sizes(17 if ctx.quick else 21)))
    # group into caches: unique keys per cache, <= 60 cases per cache
    groups, cur, seen = [], [], set()
    for c in cases:
        if len(cur) >= 60 or (c["key"] is not None and c["key"] in seen):
            groups.append(cur)
            cur, seen = [], set()
        cur.append(c)
        if c["key"] is not None:
            seen.add(c["key"])
    if cur:
        groups.append(cur)
    for g in groups:
        cache = ctx.new_cache()
        by_mode = {}
        for c in g:
            c["req"]["cache"] = cache
            by_mode.setdefault(c["mode"], []).append(c)
            # something is already sitting at the address this data will get - a same-length copy with a flipped bit,
            # a torn or empty file, a longer one, a dangling or stale symlink (bit rot, a crash, a vanished link target):
            # a write that reports success must leave the bytes it was given there
            if c["algo"] in ref.HASHLIB_ALGOS and len(c["data"]) > 0 and rng.random() < 0.08:
                kind = rng.choice(["same-length-flip", "truncated", "empty", "longer", "dangling-symlink", "symlink-to-other"])
                a, hx = ref.sri_address(ref.sri(c["algo"], c["data"]))
                cp = ref.content_path(cache, a, hx)
                os.makedirs(os.path.dirname(cp), exist_ok=True)
                if os.path.lexists(cp):
                    os.unlink(cp)
                d = c["data"]
                if kind == "same-length-flip":
                    b = bytearray(d)
                    b[rng.randrange(len(b))] ^= 1 << rng.randrange(8)
                    open(cp, "wb").write(bytes(b))
                elif kind == "truncated":
                    open(cp, "wb").write(d[:len(d) // 2])
                elif kind == "empty":
                    open(cp, "wb").close()
                elif kind == "longer":
                    open(cp, "wb").write(d + b"tail")
                elif kind == "dangling-symlink":
                    os.symlink(os.path.join(cache, "no-such-target"), cp)
                else:
                    other = os.path.join(os.path.dirname(cache), f"stale-target-{c['i']}")
                    open(other, "wb").write(b"stale bytes of a former link target")
                    os.symlink(other, cp)
                c["shape"] += "+occupied:" + kind
                ctx.count(f"writes_onto_occupied_address[{kind}]")
        for mode, cs in by_mode.items():
            resps = ctx.batch(mode, [c["req"] for c in cs])
            for c, r in zip(cs, resps):
                c["wresp"] = r
        # judge writes, then issue reads
        for mode, cs in by_mode.items():
            other = modes[(modes.index(mode) + 1) % len(modes)]
            reads_same, reads_other, owners_same, owners_other = [], [], [], []
            for c in cs:
                judge_write(ctx, model, c)
                if c.get("sri") is None:
                    continue
                if c["key"] is not None:
                    reads_same.append({"op": "read", "cache": cache, "key": c["key"]})
                    owners_same.append((c, "read(key)"))
                    reads_other.append({"op": "reader", "cache": cache, "key": c["key"],
                                        "bufs": [rng.choice([1, 7, 1024, 8192, 65536])] if len(c["data"]) < 5000
                                        else [rng.choice([1024, 8192, 65536])]})
                    owners_other.append((c, "Reader(key)+check"))
                reads_same.append({"op": "read_hash", "cache": cache, "sri": c["sri"]})
                owners_same.append((c, "read_hash"))
                reads_other.append({"op": "read_hash", "cache": cache, "sri": c["sri"]})
                owners_other.append((c, "read_hash"))
            for m, reqs, owners in ((mode, reads_same, owners_same), (other, reads_other, owners_other)):
                if not reqs:
                    continue
                rs = ctx.batch(m, reqs)
                for (c, what), r in zip(owners, rs):
                    judge_read(ctx, c, what, m, r)
        ctx.rm(cache)
    ctx.extra["entry_points"] = eps
    ctx.extra["modes"] = modes
    short_write_monitor(ctx, modes)
    if not ctx.quick:
        sanitizer_replays(ctx)


def short_write_monitor(ctx, modes):
    """write(2) may legally accept fewer bytes than offered. Under the ptrace supervisor every data write of a
    few writes is shortened (the kernel really writes only K bytes and reports K); the write must still succeed,
    return the true digest and read back."""
    rng = ctx.rng
    work = ctx.new_dir("shortw")
    d5k = rng.randbytes(5000)
    big = rng.randbytes(gen.MIB + 17)
    scen = [
        ("write", {"op": "write", "cache": "<C>", "key": "k", "data": ctx.data(d5k)}, d5k),
        ("writer-3chunks", {"op": "writer", "cache": "<C>", "key": "k", "opts": {},
                            "chunks": [ctx.data(d5k[:100]), ctx.data(d5k[100:4000]), ctx.data(d5k[4000:])]}, d5k),
        ("write_hash-1MiB+17", {"op": "write_hash", "cache": "<C>", "data": ctx.data(big)}, big),
    ]
    for name, req, data in scen:
        for mode in modes:
            sc = crash.Scenario(name, mode, req)
            bdir = os.path.join(work, f"b-{name}-{mode.replace('@', '-')}")
            os.makedirs(bdir)
            cache = os.path.join(bdir, "cache")
            base = sysm.run([crash.oneshot_cmd(sc, cache)], [cache], work, timeout=60)
            writes = [(n, c) for (n, c, fdp) in crash.visible_writes(base) if "/index-v5/" not in fdp and c > 1]
            ctx.rm(bdir)
            jobs = [(n, k) for (n, c) in writes for k in sorted({1, c // 2, c - 1})]

            def one(job, sc=sc, name=name):
                n, k = job
                rdir = os.path.join(work, f"r-{name}-{sc.mode.replace('@', '-')}-{n}-{k}")
                os.makedirs(rdir)
                cache = os.path.join(rdir, "cache")
                res = sysm.run([crash.oneshot_cmd(sc, cache)], [cache], work, short=[(n, k, 0)], timeout=60)
                return job, rdir, cache, res

            for (job, rdir, cache, res) in crash.pmap(one, jobs):
                n, k = job
                rs = res.responses(0)
                r = rs[0] if rs else {"died": {"rc": res.rc}}
                ctx.count("short_write_runs")
                ctx.case(distinct_key=("short-write", name, mode, n, k),
                         sample={"monitor": "short write", "entry_point": name, "mode": mode, "call": n, "accepted_bytes": k,
                                 "result": ev.variant(r)} if (n + k) % 5 == 0 else None)
                det = {"entry_point": name, "mode": mode, "call": n, "accepted_bytes": k, "steps": [[mode, req]],
                       "sysmon_argv": res.argv[:14], "response": r}
                sig = f"short-write|{name}|{mode}"
                if not ev.is_ok(r):
                    ctx.violation(sig + f"|{ev.variant(r)}", f"{name} in {mode}: when write(2) #{n} accepts only {k} bytes the "
                                  f"write fails: {ev.brief(r)}", det)
                elif r["ok"]["sri"] != ref.sri("sha256", data):
                    ctx.violation(sig + "|wrong-digest", f"{name} in {mode}: when write(2) #{n} accepts only {k} bytes the returned "
                                  f"address {r['ok']['sri']} is not the digest of the data", det)
                else:
                    rd = ctx.call(mode, {"op": "read_hash", "cache": cache, "sri": r["ok"]["sri"]})
                    if not ev.is_ok(rd) or drv.data_bytes(rd["ok"]["data"]) != data:
                        ctx.violation(sig + "|read-back", f"{name} in {mode}: after a short write(2) the data does not read back: "
                                      f"{ev.brief(rd)}", det)
                ctx.rm(rdir)


def sanitizer_replays(ctx):
    from .. import san
    rng = ctx.rng
    work = ctx.new_dir("san")
    n = 0
    for v in ("astd", "tok"):
        n += san.asan(ctx, v, lambda c: san.writer_script(rng, c, 500, 200000), work, f"writers-{v}")
    n += san.memcheck(ctx, "astd", lambda c: san.writer_script(rng, c, 200, gen.MIB), work, "writers-mmap")
    # Miri interprets every hashed byte: small payloads, several shards side by side
    import random as _random
    from .. import crash as _crash
    jobs = [("miri-tok", 25, 3000, ("sync", "async"), f"writers-miri{shard}") for shard in range(6)] + \
           [("miri-sync", 40, 3000, ("sync",), f"writers-mirisync{shard}") for shard in range(2)]
    seeds = [rng.getrandbits(32) for _ in jobs]

    def shard(job_seed):
        (variant, cnt, mx, ms, label), sd = job_seed
        r2 = _random.Random(sd)
        return san.miri(ctx, variant, lambda c: san.writer_script(r2, c, cnt, mx, modes=ms), work, label)

    n += sum(_crash.pmap(shard, list(zip(jobs, seeds)), workers=8))
    ctx.extra["sanitizer_replay_ops"] = n


def sig(c, result):
    chunks = "oneshot" if c["shape"] == "oneshot" else ("chunks0" if not c["lens"] else
                                                         "chunks1" if len(c["lens"]) == 1 else "chunksN")
    return (f"{c['ep']}|{c['mode']}|{lenclass(len(c['data']))}|"
            f"{'declared' if c['declared'] else 'undeclared'}|{chunks}|{result}")


def detail(c, r):
    return {"case": c["i"], "entry_point": c["ep"], "mode": c["mode"], "algo": c["algo"], "key": c["key"],
            "len": len(c["data"]), "chunk_lens": c["lens"][:40], "shape": c["shape"],
            "steps": [[c["mode"], c["req"]]], "response": r}


def judge_write(ctx, model, c):
    r = c["wresp"]
    ctx.count(f"writes[{c['ep']}@{c['mode']}]")
    ctx.count(f"algo[{c['algo']}]")
    if not ev.is_ok(r):
        ctx.case()
        ctx.violation(sig(c, ev.variant(r)),
                      f"{c['ep']} in {c['mode']} of {len(c['data'])} bytes ({c['shape']}) on a healthy "
                      f"filesystem did not succeed: {ev.brief(r)}", detail(c, r))
        return
    if "bg_panic" in r:
        ctx.violation(sig(c, "bg_panic"), f"background panic during {c['ep']}: {r['bg_panic']}", detail(c, r))
    sri = r["ok"].get("sri")
    want = model.expected_sri(c["algo"], c["data"])
    if c["algo"] == "xxh3":
        prob = model.learn("xxh3", c["data"], sri)
        if prob:
            ctx.violation(sig(c, "xxh3-inconsistent"), prob, detail(c, r))
    elif sri != want:
        ctx.case()
        ctx.violation(sig(c, "wrong-digest"),
                      f"{c['ep']} returned {sri}, true {c['algo']} digest is {want}", detail(c, r))
        return
    c["sri"] = sri


def judge_read(ctx, c, what, mode, r):
    ctx.count(f"reads[{what}@{mode}]")
    key = (c["ep"], c["mode"], c["algo"], lenclass(len(c["data"])), c["shape"], c["declared"])
    ctx.case(distinct_key=key, sample={"entry_point": c["ep"], "mode": c["mode"], "algo": c["algo"],
                                       "key": c["key"], "len": len(c["data"]), "chunks": c["lens"][:12],
                                       "read": what, "read_mode": mode})
    if not ev.is_ok(r):
        ctx.violation(sig(c, f"{what}:{ev.variant(r)}"),
                      f"after a successful {c['ep']} in {c['mode']}, {what} in {mode} failed: {ev.brief(r)}",
                      detail(c, r))
        return
    got = drv.data_bytes(r["ok"]["data"])
    if got != c["data"]:
        ctx.violation(sig(c, f"{what}:wrong-bytes"),
                      f"after {c['ep']} in {c['mode']}, {what} in {mode} returned {len(got)} bytes that differ "
                      f"from the {len(c['data'])} bytes written", detail(c, {"got_len": len(got)}))
