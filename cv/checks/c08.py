"""C08 — commit enforces declared integrity and size; a rejected commit maps nothing."""
from .. import drv, ev, gen, ref

MIB = gen.MIB


def other_algo(rng, algo):
    return rng.choice([a for a in ref.HASHLIB_ALGOS if a != algo])


def make_integrity(rng, kind, algo, data):
    """Returns (sri string, expected classes)."""
    good = ref.sri(algo, data)
    if kind == "none":
        return None, {"Ok"}
    if kind == "correct":
        return good, {"Ok"}
    if kind == "wrong-same-algo":
        return ref.sri(algo, data + b"!"), {"IntegrityError"}
    if kind == "correct-other-algo":
        return ref.sri(other_algo(rng, algo), data), {"IntegrityError", "Ok"}
    if kind == "wrong-other-algo":
        return ref.sri(other_algo(rng, algo), data + b"!"), {"IntegrityError", "Ok"}
    if kind == "multi-with-correct":
        o = other_algo(rng, algo)
        return f"{ref.sri(o, data)} {good}", {"Ok"}
    if kind == "multi-with-correct-and-wrong-same-algo":
        return f"{ref.sri(algo, data + b'?')} {good}", {"Ok"}
    if kind == "existing-other-content":
        # the correct digest of bytes that another key stores; the data being written is different
        return ref.sri("sha256", b"previous value"), ({"IntegrityError"} if algo == "sha256" else {"IntegrityError", "Ok"})
    if kind == "truncated-digest":
        # a prefix of the right digest is not the right digest
        d = good.split("-", 1)[1]
        return f"{algo}-{d[:rng.choice([4, 8, len(d) // 2 // 4 * 4])]}", {"IntegrityError"}
    if kind == "empty-digest":
        return f"{algo}-", {"IntegrityError"}
    if kind == "multi-wrong-other-algo-plus-correct":
        # the hash of the writer's algorithm is right; a hash of another (possibly stronger) algorithm is of other data:
        # nothing may end up stored under an address it does not hash to
        return f"{ref.sri(other_algo(rng, algo), data + b'!')} {good}", {"Ok", "IntegrityError"}
    if kind == "multi-all-wrong":
        o = other_algo(rng, algo)
        return f"{ref.sri(o, data + b'!')} {ref.sri(algo, data + b'!')}", {"IntegrityError"}
    raise ValueError(kind)


INTEGRITY_KINDS = ["none", "none", "correct", "wrong-same-algo", "existing-other-content", "correct-other-algo", "wrong-other-algo",
                   "multi-with-correct", "multi-with-correct-and-wrong-same-algo", "multi-all-wrong",
                   "truncated-digest", "empty-digest", "multi-wrong-other-algo-plus-correct"]


def run(ctx):
    rng = ctx.rng
    modes = drv.QUICK_MODES if ctx.quick else drv.ALL_MODES
    n = 6000 if ctx.quick else 60000
    ctx.rule = ("case = (mode, keyed/by-address, algorithm, data size regime, chunk shape [one write per chunk, or all chunks as one write_vectored gather list], declared size class, "
                "declared integrity class, prior key state); the commit's error variant (and SizeMismatch numbers) "
                "are compared with the model and metadata(key)+read(key) are compared before/after a rejected commit; "
                "distinct = distinct (mode, keyed, size regime, declared-size class, integrity class, prior state, "
                "chunk class) tuples")
    ctx.assumptions = ["a declared integrity without a hash of the writer's algorithm is an open outcome "
                       "(Integrity::matches only compares the writer's algorithm); the state must match the outcome"]
    cache = ctx.new_cache()
    prior_data = b"previous value"
    holder = ctx.call("sync@astd", {"op": "write", "cache": cache, "key": "holder-of-shared-content", "data": ctx.data(prior_data)})
    # a second holder with content large enough to arrive in several chunks
    prior_big = rng.randbytes(5000)
    ctx.call("sync@astd", {"op": "write", "cache": cache, "key": "holder-of-big-shared-content", "data": ctx.data(prior_big)})
    for i in range(n):
        mode = modes[i % len(modes)]
        keyed = rng.random() < 0.75
        algo = rng.choice(ref.HASHLIB_ALGOS)
        r = rng.random()
        if r < 0.03 and not ctx.quick or (ctx.quick and i % 150 == 0):
            ln = rng.choice([MIB - 1, MIB, MIB + 1, MIB + 4097])
        elif r < 0.5:
            ln = rng.choice([0, 1, 2, 17, 4096, 4097, 65536])
        else:
            ln = rng.randint(0, 3000)
        data = gen.data(rng, ln)
        shared = rng.random() < 0.2
        if shared:
            # the very bytes another key (and possibly this key's previous value) already stores
            data, ln, algo = prior_data, len(prior_data), "sha256"
            if rng.random() < 0.5:
                data, ln = prior_big, len(prior_big)
        shape, lens = gen.chunking(rng, ln)
        sclass = rng.choice(["none", "exact", "exact", "minus1", "plus1", "zero", "double", "mib-1", "mib", "mib+1",
                             "one", "half", "tenth"])
        dsize = {"none": None, "exact": ln, "minus1": ln - 1, "plus1": ln + 1, "zero": 0, "double": 2 * ln,
                 "mib-1": MIB - 1, "mib": MIB, "mib+1": MIB + 1, "one": 1, "half": ln // 2, "tenth": ln // 10}[sclass]
        if dsize is not None and dsize < 0:
            dsize, sclass = ln + 1, "plus1"
        ikind = rng.choice(INTEGRITY_KINDS)
        if ikind == "existing-other-content" and (shared or data == prior_data or data == prior_big):
            ikind = "wrong-same-algo"
        dsri, iallowed = make_integrity(rng, ikind, algo, data)
        if ikind == "existing-other-content":
            shared = True       # the holder of that content is watched across the commit
        size_ok = dsize is None or dsize == ln
        allowed = set()
        if "Ok" in iallowed and size_ok:
            allowed.add("Ok")
        if "IntegrityError" in iallowed:
            allowed.add("IntegrityError")
        if not size_ok and "Ok" in iallowed:
            allowed.add("SizeMismatch")
        prior = rng.choice(["absent", "present", "removed"]) if keyed else "n/a"
        key = f"k{i}-" + (rng.choice(gen.HOSTILE_KEYS) if rng.random() < 0.2 else "x")
        pre = []
        if keyed and prior in ("present", "removed"):
            pre.append({"op": "write", "cache": cache, "key": key, "data": ctx.data(prior_data)})
            if prior == "removed":
                pre.append({"op": "remove", "cache": cache, "key": key})
        opts = {"algo": algo}
        if dsize is not None:
            opts["size"] = dsize
        if dsri is not None:
            opts["sri"] = dsri
        if rng.random() < 0.3:
            opts["metadata"] = {"i": i}
        wreq = {"op": "writer", "cache": cache, "opts": opts, "chunks": [ctx.data(c) for c in gen.split(data, lens)]}
        if keyed:
            wreq["key"] = key
        vect = bool(lens) and rng.random() < 0.2
        if vect:
            # the same chunks handed over as one gather list (write_vectored) instead of one write each
            wreq["vectored"] = True
        look = [{"op": "metadata", "cache": cache, "key": key}, {"op": "read", "cache": cache, "key": key}] if keyed else []
        if shared:
            look = look + [{"op": "read", "cache": cache, "key": "holder-of-shared-content"},
                           {"op": "read", "cache": cache, "key": "holder-of-big-shared-content"}]
        reqs = pre + look + [wreq] + look
        resps = ctx.batch(mode, reqs)
        np_, nl = len(pre), len(look)
        before = resps[np_:np_ + nl]
        w = resps[np_ + nl]
        after = resps[np_ + nl + 1:]
        v = ev.variant(w)
        regime = "len0" if ln == 0 else ("<=1MiB" if ln <= MIB else ">1MiB")
        chunkclass = ("chunks0" if not lens else ("chunks1" if len(lens) == 1 else "chunksN")) + ("-vectored" if vect else "")
        dk = (mode, keyed, regime, sclass, ikind, prior, chunkclass, shared)
        ctx.case(distinct_key=dk, sample={"mode": mode, "keyed": keyed, "algo": algo, "len": ln, "chunks": lens[:10],
                                          "declared_size": dsize, "integrity_class": ikind, "prior": prior,
                                          "result": v})
        ctx.count(f"commits[{'accepted' if v == 'Ok' else 'rejected'}]")
        ctx.count(f"mode[{mode}]")
        sig = f"{mode}|{'keyed' if keyed else 'hash'}|{regime}|size:{sclass}|sri:{ikind}|{chunkclass}"
        det = {"steps": [[mode, q] for q in reqs], "allowed": sorted(allowed), "observed": ev.brief(w)}
        if v not in allowed:
            ctx.violation(sig + f"|{v}", f"commit with declared size {dsize} (actual {ln}) and integrity class "
                          f"{ikind} returned {ev.brief(w)}; allowed {sorted(allowed)}", det)
            continue
        if v == "SizeMismatch":
            e = w["err"]
            if e.get("wanted") != dsize or e.get("actual") != ln:
                ctx.violation(sig + "|SizeMismatch-numbers",
                              f"SizeMismatch reports ({e.get('wanted')},{e.get('actual')}), expected ({dsize},{ln})", det)
        if not keyed and not shared:
            continue
        ctx.count("before_after_comparisons")
        if v != "Ok":
            # mapping must be untouched (the key's own, and every other key relying on the same content)
            for b, a, q in zip(before, after, look):
                if strip(b) != strip(a):
                    ctx.violation(sig + f"|rejected-but-{q['op']}-changed" + ("|shared-content" if shared else ""),
                                  f"commit was rejected with {v} but {q['op']}({key!r}) changed: "
                                  f"{ev.brief(b)} -> {ev.brief(a)}", det)
                    break
        elif keyed:
            m, rd = after[0], after[1]
            # the entry is indexed under the address the data was stored at
            exp_sri = ref.sri(algo, data)
            if not ev.is_ok(m) or m["ok"]["entry"] is None:
                ctx.violation(sig + "|accepted-but-not-mapped", f"commit Ok but metadata gives {ev.brief(m)}", det)
            else:
                e = m["ok"]["entry"]
                if e["integrity"] != normalise_sri(exp_sri) or e["size"] != ln:
                    ctx.violation(sig + "|accepted-entry-differs",
                                  f"commit Ok but entry is integrity={e['integrity']} size={e['size']}, expected "
                                  f"{normalise_sri(exp_sri)} size={ln}", det)
            if not ev.is_ok(rd) or drv.data_bytes(rd["ok"]["data"]) != data:
                ctx.violation(sig + "|accepted-but-unreadable",
                              f"commit Ok (declared integrity class {ikind}, writer algorithm {algo}) but read(key) "
                              f"gives {ev.brief(rd)}", det)
    final_tree_walk(ctx, cache)


def final_tree_walk(ctx, cache):
    probs = ref.check_content_tree(cache)
    ctx.count("content_files_walked", len(ref.content_census(cache)))
    if probs:
        ctx.violation("final|content-area", f"after all commits the content area holds a file that does not match its address: {probs[0]}",
                      {"problems": probs[:5]})


def strip(r):
    """Response without timing fields; returned data by value (large results come back as files with fresh names)."""
    out = {k: v for k, v in r.items() if k in ("ok", "err", "panic", "hang", "died")}
    if isinstance(out.get("ok"), dict) and isinstance(out["ok"].get("data"), dict):
        import hashlib
        try:
            b = drv.data_bytes(out["ok"]["data"])
            out["ok"] = dict(out["ok"], data=(len(b), hashlib.sha1(b).hexdigest()))
        except Exception:
            pass
    return out


def normalise_sri(s):
    """ssri prints hashes strongest first."""
    parts = s.split()
    hs = ref.sri_parse(s)
    import base64
    return " ".join(f"{a}-{base64.b64encode(raw).decode()}" for a, raw in hs) if len(parts) > 1 else s
