"""C03 — content files appear atomically: never partial, always matching their address.

Crash-point enumeration: SIGKILL at the entry of every visible system call of
every write scenario, and the in-flight write(2) torn at chosen/every byte
length; after each kill the content area is walked and every file's digest is
recomputed."""
import os

from .. import crash, drv, ev, gen, interleave, ref, sysm

MIB = gen.MIB


def scenarios(ctx, rng):
    big = rng.randbytes(MIB)
    d5 = b"hello"
    d4097 = rng.randbytes(4097)
    out = []

    def S(name, mode, req, prep=None, data=b"", algo="sha256"):
        out.append(crash.Scenario(name, mode, req, prep, {"data": data, "algo": algo}))

    warm = [{"op": "write", "cache": "<C>", "key": "other", "data": {"hex": b"other entry".hex()}}]
    for mode in (drv.QUICK_MODES if ctx.quick else drv.ALL_MODES):
        S("write-cold-5", mode, {"op": "write", "cache": "<C>", "key": "k", "data": ctx.data(d5)}, None, d5)
        S("write-warm-4097", mode, {"op": "write", "cache": "<C>", "key": "k", "data": ctx.data(d4097)}, warm, d4097)
        S("write-present-5", mode, {"op": "write", "cache": "<C>", "key": "k2", "data": ctx.data(d5)},
          [{"op": "write", "cache": "<C>", "key": "k", "data": ctx.data(d5)}], d5)
        S("write_hash-cold-5-sha512", mode, {"op": "write_hash", "cache": "<C>", "algo": "sha512", "data": ctx.data(d5)},
          None, d5, "sha512")
        S("streamed-3chunks-warm", mode, {"op": "writer", "cache": "<C>", "key": "k", "opts": {},
                                          "chunks": [ctx.data(d4097[:1000]), ctx.data(d4097[1000:3000]), ctx.data(d4097[3000:])]},
          warm, d4097)
        S("declared-mmap-warm-4097", mode, {"op": "writer", "cache": "<C>", "opts": {"size": 4097},
                                            "chunks": [ctx.data(d4097[:2000]), ctx.data(d4097[2000:])],
                                            **({"key": "k"} if mode.startswith("sync") else {})}, warm, d4097)
        S("declared-short-mmap", mode, {"op": "writer", "cache": "<C>", "opts": {"size": 4097},
                                        "chunks": [ctx.data(d4097[:100])],
                                        **({"key": "k"} if mode.startswith("sync") else {})}, warm, d4097[:100])
        if mode.startswith("sync"):
            # the same declared-size write handed over as ONE gather list (Write::write_vectored): whichever path the
            # bytes take into the preallocated temp file, what is published under the digest is the whole stream
            S("declared-mmap-vectored-4097", mode, {"op": "writer", "cache": "<C>", "key": "k", "opts": {"size": 4097}, "vectored": True,
                                                    "chunks": [ctx.data(d4097[:2000]), ctx.data(d4097[2000:])]}, warm, d4097)
        # unusual layout: the cache's temp area lives on ANOTHER file system (symlink / mount), so the publishing
        # rename cannot work; whatever the library does instead must not expose partial content either
        S("write-warm-4097-tmp-on-other-fs", mode, {"op": "write", "cache": "<C>", "key": "k", "data": ctx.data(d4097)}, warm, d4097)
        if not ctx.quick or mode == "sync@astd":
            S("write-present-1MiB-tmp-on-other-fs", mode, {"op": "write", "cache": "<C>", "key": "k2", "data": ctx.data(big)},
              [{"op": "write", "cache": "<C>", "key": "k", "data": ctx.data(big)}], big)
            S("write-cold-0", mode, {"op": "write", "cache": "<C>", "key": "k", "data": ctx.data(b"")}, None, b"")
            S("write-xxh3-warm", mode, {"op": "write", "cache": "<C>", "key": "k", "algo": "xxh3", "data": ctx.data(d4097)},
              warm, d4097, "xxh3")
            S("write-warm-1MiB", mode, {"op": "write", "cache": "<C>", "key": "k", "data": ctx.data(big)}, warm, big)
        if not ctx.quick:
            S("declared-1MiB+1-plain", mode, {"op": "writer", "cache": "<C>", "key": "k", "opts": {"size": MIB + 1},
                                              "chunks": [ctx.data(big), ctx.data(b"z")]}, warm, big + b"z")
            S("declared-mmap-1MiB", mode, {"op": "write_hash", "cache": "<C>", "data": ctx.data(big)}, warm, big)
    return out


def run(ctx):
    rng = ctx.rng
    ctx.rule = ("scenario = (write entry point, keyed/by-address, data size, cold / warm / address-already-present, "
                "mode). A traced baseline gives the T visible (path under the cache) system calls; then EVERY kill "
                "point N=1..T is executed (SIGKILL at the entry of call N), and for every visible write(2) of length c "
                "every torn length K<c when c<=256, else {0,1,c/2,c-1,1 KiB,4 KiB,4 KiB+1,8 KiB} (the kernel performs "
                "the K-byte write, then the process is killed). Async modes are multi-threaded: each N is run 2-3 "
                "times. After each kill: every file under content-v2 must sit at <algo>/xx/yy/<rest> and hash to its "
                "path (sha*: hashlib; xxh3: equal to the data known for that address), and a fresh process must "
                "answer exists/read_hash consistently. distinct = (scenario, kill point, torn length). "
                "(2) overlapping writers of one process (cv/interleave.py): 2-3 writers (same or different data, "
                "declared size / integrity or not, keyed or by address, sync and async handles) are kept open by the "
                "driver and advanced one step at a time in a random merge of their steps; after EVERY step the content "
                "area is walked and re-hashed from outside while the other writers are still in flight. (3) async writers "
                "on which a write future was dropped while pending (1-2 cancelled writes of 1 byte .. 3 MiB before "
                "random chunks) and that are then written to and committed / dropped: the content area is walked, the "
                "returned address must read back, content stored before must survive")
    ctx.assumptions = ["process kill only (no power loss; the library never fsyncs)",
                       "memory-mapped stores are not system calls; their partial states live only in the private temp file"]
    ctx.exhaustive = True
    scs = scenarios(ctx, rng)
    states = set()
    total_points = 0
    for si, sc in enumerate(scs):
        work = ctx.new_dir(f"work{si}")
        tdir = os.path.join(work, f"t{si}")
        os.makedirs(tdir)
        crash.build_template(ctx, sc, tdir)
        ext = None
        if sc.name.endswith("tmp-on-other-fs"):
            import tempfile, shutil
            ext = tempfile.mkdtemp(prefix="cv-C03-othertmp-", dir="/tmp" if work.startswith("/dev/shm") else "/dev/shm")
            tc = os.path.join(tdir, "cache")
            os.makedirs(tc, exist_ok=True)
            shutil.rmtree(os.path.join(tc, "tmp"), ignore_errors=True)
            os.symlink(ext, os.path.join(tc, "tmp"))
        roots_extra = [ext] if ext else []
        # baseline
        bdir = os.path.join(work, f"b{si}")
        cache = crash.instantiate(tdir, bdir)
        base = sysm.run([crash.oneshot_cmd(sc, cache)], [cache] + roots_extra, work, timeout=60)
        resp = base.responses(0)
        rejected = sc.name.startswith("declared-short") and resp and ev.variant(resp[0]) == "SizeMismatch"
        if ext and resp and ev.variant(resp[0]) == "IoError":
            rejected = True          # refusing to publish across file systems is a legitimate outcome
        if not resp or not (ev.is_ok(resp[0]) or rejected) or not base.final:
            ctx.inconc(f"baseline of scenario {sc.name}@{sc.mode} failed: {resp[:1]} rc={base.rc}")
            continue
        T = base.final["visible"]
        # a commit rejected for its size has still published the (complete) data it was given
        sri = resp[0]["ok"].get("sri") if not rejected else ref.sri(sc.meta["algo"], sc.meta["data"])
        algo, hexd = ref.sri_address(sri)
        xx = {hexd: sc.meta["data"]} if algo == "xxh3" else {}
        if algo != "xxh3" and sri != ref.sri(algo, sc.meta["data"]):
            ctx.inconc(f"baseline of {sc.name} returned an unexpected address {sri}")
        probs = ref.check_content_tree(cache, xx)
        if probs:
            ctx.violation(f"{sc.name}|{sc.mode}|no-kill", f"content area invalid after an uninterrupted run: {probs[0]}",
                          {"scenario": sc.name, "steps": [[sc.mode, sc.req]]})
        writes = crash.visible_writes(base)
        ctx.rm(bdir)
        reps = 1 if sc.mode.startswith("sync") else (2 if ctx.quick else 3)
        jobs = []
        for n in range(1, T + 1):
            for rep in range(reps):
                jobs.append((n, None, rep))
        for (n, c, fdp) in writes:
            for k in crash.torn_lengths(c, 256 if not ctx.quick else 64):
                for rep in range(reps):
                    jobs.append((n, k, rep))
        total_points += len(jobs)

        def one(job, sc=sc, si=si, tdir=tdir, xx=xx, sri=sri, roots_extra=roots_extra):
            n, k, rep = job
            rdir = os.path.join(work, f"r{si}-{n}-{k}-{rep}")
            cache = crash.instantiate(tdir, rdir)
            res = sysm.run([crash.oneshot_cmd(sc, cache)], [cache] + roots_extra, work, kill_at=n, torn=k, timeout=60)
            probs = ref.check_content_tree(cache, xx)
            present = os.path.exists(ref.content_path_sri(cache, sri))
            th = crash.tree_hash(cache)
            return (job, rdir, cache, res, probs, present, th)

        results = crash.pmap(one, jobs)
        for (job, rdir, cache, res, probs, present, th) in results:
            n, k, rep = job
            if res.timed_out:
                ctx.inconc(f"{sc.name}@{sc.mode} kill-at {n}: supervisor watchdog fired")
                ctx.rm(rdir)
                continue
            killed = res.killed
            ctx.count("killed_runs" if killed else "runs_finished_before_kill_point")
            if k is not None:
                ctx.count("torn_write_runs")
            states.add(th)
            ctx.case(distinct_key=(sc.name, sc.mode, n, k),
                     sample={"scenario": sc.name, "mode": sc.mode, "kill_at": n, "torn": k, "visible_calls": T,
                             "content_present_after": present} if (n + (k or 0)) % 37 == 0 and rep == 0 else None)
            det = {"scenario": sc.name, "mode": sc.mode, "kill_at": n, "torn": k,
                   "steps": [[sc.mode, sc.req]], "sysmon_argv": res.argv[:12], "prep": sc.prep,
                   "last_events": [f"{e['name']} {e['paths'] or e['fd_path']} -> {e.get('ret')}" for e in res.visible[-4:]]}
            if probs:
                ctx.violation(f"{sc.name}|{sc.mode}|content-tree",
                              f"after SIGKILL at visible call {n}" + (f" (write torn to {k} bytes)" if k is not None else "") +
                              f" of {sc.name}: {probs[0]}", det)
            # content that was already stored before the interrupted write must still be there, byte-identical
            for q in sc.prep:
                if q["op"] in ("write", "write_hash") and "hex" in q.get("data", {}):
                    pd = bytes.fromhex(q["data"]["hex"])
                    pp = ref.content_path(cache, "sha256", __import__("hashlib").sha256(pd).hexdigest())
                    try:
                        okp = open(pp, "rb").read() == pd
                    except OSError:
                        okp = False
                    if not okp:
                        ctx.violation(f"{sc.name}|{sc.mode}|pre-existing-content-lost",
                                      f"after SIGKILL at visible call {n} of {sc.name}, content that was stored before the "
                                      f"operation started is missing or changed", det)
            # a fresh process must see a consistent picture
            ctx.count("content_files_examined", len(ref.content_census(cache)))
            for m in ("sync@astd", "async@tok"):
                rr = ctx.call(m, {"op": "read_hash", "cache": cache, "sri": sri})
                ex = ctx.call(m, {"op": "exists", "cache": cache, "sri": sri})
                if present:
                    if not ev.is_ok(rr) or drv.data_bytes(rr["ok"]["data"]) != sc.meta["data"]:
                        ctx.violation(f"{sc.name}|{sc.mode}|fresh-read|{ev.variant(rr)}",
                                      f"after kill at {n}/{k} the content file exists but read_hash in {m} gives {ev.brief(rr)}", det)
                elif ev.is_ok(rr):
                    ctx.violation(f"{sc.name}|{sc.mode}|fresh-read-phantom", f"content absent but read_hash Ok in {m}", det)
                if ev.is_ok(ex) and ex["ok"]["exists"] != present:
                    ctx.violation(f"{sc.name}|{sc.mode}|exists", f"exists()={ex['ok']['exists']} but file present={present}", det)
            ctx.rm(rdir)
        ctx.count(f"visible_calls[{sc.name}@{sc.mode}]", T)
        if ext:
            ctx.rm(ext)
        ctx.rm(work)
    # ---------------- (2) overlapping writers, content area inspected between any two steps
    interleave.run(ctx, drv.QUICK_MODES if ctx.quick else drv.ALL_MODES, 1500 if ctx.quick else 20000,
                   content_monitor=True, results_monitor=False, big=not ctx.quick)
    # ---------------- (3) async writers used after a cancelled write
    interleave.cancelled_writes(ctx, drv.QUICK_MODES if ctx.quick else drv.ALL_MODES, 300 if ctx.quick else 5000)
    ctx.extra["distinct_on_disk_states_after_kill"] = len(states)
    ctx.extra["scenarios"] = [f"{s.name}@{s.mode}" for s in scs]
    ctx.extra["kill_and_torn_points"] = total_points
