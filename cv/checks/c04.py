"""C04 — a keyed write or removal interrupted by a crash is all-or-nothing.

Crash-point enumeration (every visible call; EVERY torn prefix of the index
append) followed by lookups from fresh processes in sync and async modes and a
continuation that must behave per the model."""
import os
import shutil

from .. import crash, drv, ev, gen, ref, sysm
from ..model import entry_diffs

BYSTANDERS = [("by-1", b"bystander one"), ("by-2", b"OLD VALUE"), ("by-3", b"")]


def prep_common(ctx):
    return [{"op": "writer", "cache": "<C>", "key": k, "opts": {"time": "42", "metadata": {"b": k}},
             "chunks": [ctx.data(d)]} for k, d in BYSTANDERS]


def scenarios(ctx, rng):
    out = []
    old = b"OLD VALUE"          # shares its content address with bystander by-2
    new = b"the new value"
    ukey = "kéy-\U0001F600-中"      # 2-, 3- and 4-byte sequences
    umeta = {"né": "ü中\U0001F600" * 5, "x": ["é\U0001F4A9"]}
    bigmeta = {"blob": "m" * 2048}

    def W(key, data, opts):
        o = dict(opts)
        o.setdefault("time", "1000")
        return {"op": "writer", "cache": "<C>", "key": key, "opts": o, "chunks": [ctx.data(data)]}

    def S(name, mode, req, prep, key, old_state, new_state):
        out.append(crash.Scenario(name, mode, req, prep_common(ctx) + prep,
                                  {"key": key, "old": old_state, "new": new_state}))

    def ent(key, data, opts, algo="sha256"):
        o = dict(opts)
        return ({"key": key, "integrity": ref.sri(algo, data), "time": int(o.get("time", 1000)), "size": len(data),
                 "metadata": o.get("metadata"), "raw_metadata": None}, data)

    for mode in (drv.QUICK_MODES if ctx.quick else drv.ALL_MODES):
        S("first-write", mode, W("k", new, {}), [], "k", None, ent("k", new, {}))
        S("overwrite", mode, W("k", new, {"metadata": {"v": 2}}), [W("k", old, {"time": "7"})], "k",
          ent("k", old, {"time": "7"}), ent("k", new, {"metadata": {"v": 2}}))
        S("remove", mode, {"op": "remove", "cache": "<C>", "key": "k"}, [W("k", old, {"time": "7"})], "k",
          ent("k", old, {"time": "7"}), None)
        # the bytes being written are already stored (same key re-put with new metadata; they are also bystander by-2's)
        S("reput-unchanged-data", mode, W("k", old, {"metadata": {"v": 2}}), [W("k", old, {"time": "7"})], "k",
          ent("k", old, {"time": "7"}), ent("k", old, {"metadata": {"v": 2}}))
        S("utf8-key-and-metadata", mode, W(ukey, new, {"metadata": umeta}), [W(ukey, old, {"time": "7"})], ukey,
          ent(ukey, old, {"time": "7"}), ent(ukey, new, {"metadata": umeta}))
        def history_until(limit):
            """Records for key k (last one = old) whose total size is the first to exceed `limit` bytes."""
            out, total, g = [], 0, 0
            last = len(ref.record_bytes(ref.entry_json("k", ref.sri("sha256", old), 7, len(old))))
            while True:
                d = b"gen-%d" % g
                ln = len(ref.record_bytes(ref.entry_json("k", ref.sri("sha256", d), 100 + g, len(d))))
                if total + ln + last > limit:
                    break
                out.append(W("k", d, {"time": str(100 + g)}))
                total += ln
                g += 1
            # pad with one record sized so that the bucket ends just above the limit
            return out + [W("k", old, {"time": "7", "metadata": {"pad": "p" * max(0, limit - total - last + 1)}})]

        limits = [4096, 8192] if mode == "sync@astd" or not ctx.quick else []
        if not ctx.quick:
            limits.append(65536)
        for lim in limits:
            hl = history_until(lim)
            oldent = ent("k", old, {"time": "7", "metadata": hl[-1]["opts"].get("metadata")})
            S(f"overwrite-when-bucket-exceeds-{lim}", mode, W("k", new, {}), hl, "k", oldent, ent("k", new, {}))
            if mode == "sync@astd":
                S(f"remove-when-bucket-exceeds-{lim}", mode, {"op": "remove", "cache": "<C>", "key": "k"}, hl, "k", oldent, None)
        hist25 = [W("k", b"gen-%d" % g, {"time": str(100 + g)}) for g in range(24)] + [W("k", old, {"time": "7"})]
        S("overwrite-after-25-records", mode, W("k", new, {}), hist25, "k", ent("k", old, {"time": "7"}), ent("k", new, {}))
        if not ctx.quick or mode == "sync@astd":
            S("remove-after-25-records", mode, {"op": "remove", "cache": "<C>", "key": "k"}, hist25, "k",
              ent("k", old, {"time": "7"}), None)
            S("remove-absent", mode, {"op": "remove", "cache": "<C>", "key": "never"}, [], "never", None, None)
            S("big-metadata", mode, W("k", new, {"metadata": bigmeta}), [W("k", old, {"time": "7"})], "k",
              ent("k", old, {"time": "7"}), ent("k", new, {"metadata": bigmeta}))
            S("oneshot-write", mode, {"op": "write", "cache": "<C>", "key": "k", "data": ctx.data(new)},
              [W("k", old, {"time": "7"})], "k", ent("k", old, {"time": "7"}), "oneshot")
        # one record larger than every small-write threshold (4 KiB pages, 8 KiB buffers): whatever the library does
        # differently for such records must also be all-or-nothing, and must not get in the way of the next call
        hugemeta = {"blob": "h" * 9000}
        S("huge-metadata", mode, W("k", new, {"metadata": hugemeta}), [W("k", old, {"time": "7"})], "k",
          ent("k", old, {"time": "7"}), ent("k", new, {"metadata": hugemeta}))
    return out, new


CONTINUATIONS = ["write-same-shorter", "write-same-longer", "remove", "write-other", "rewrite-old", "retry-interrupted"]


def run(ctx):
    rng = ctx.rng
    ctx.rule = ("scenario = {first write, overwrite, removal (tombstone), removal of an absent key, write with multi-byte "
                "UTF-8 in key and metadata (torn lengths cut inside 2/3/4-byte sequences), write with 2 KiB metadata, "
                "one-shot write} x modes. EVERY visible call is a kill point; the index append is torn at EVERY prefix "
                "length 0..len-1. After each kill fresh processes (sync and async) evaluate metadata/read/list for the "
                "key and 3 bystander keys (one sharing the content address): allowed = exactly the old or exactly the "
                "new entry; new visible => its data readable. Then a continuation from {the interrupted call repeated verbatim, write same key shorter/longer, "
                "remove, write other key, re-write old value} must succeed and become visible. distinct = (scenario, "
                "mode, kill point, torn length)")
    ctx.assumptions = ["process kill only (no power loss)", "one interrupted operation at a time"]
    ctx.exhaustive = not ctx.quick   # quick thins the torn lengths of some scenarios (see step below)
    scs, newdata = scenarios(ctx, rng)
    bucket_states = set()
    for si, sc in enumerate(scs):
        work = ctx.new_dir(f"work{si}")
        tdir = os.path.join(work, f"t{si}")
        os.makedirs(tdir)
        crash.build_template(ctx, sc, tdir)
        bdir = os.path.join(work, f"b{si}")
        cache = crash.instantiate(tdir, bdir)
        base = sysm.run([crash.oneshot_cmd(sc, cache)], [cache], work, timeout=60)
        resp = base.responses(0)
        if not resp or not ev.is_ok(resp[0]) or not base.final:
            ctx.inconc(f"baseline of {sc.name}@{sc.mode} failed: {resp[:1]}")
            continue
        T = base.final["visible"]
        key = sc.meta["key"]
        old, new = sc.meta["old"], sc.meta["new"]
        if new == "oneshot":   # default timestamp: take the entry from the baseline
            e = ref.lookup(cache, key)
            new = ({"key": key, "integrity": e["integrity"], "time": None, "size": e["size"], "metadata": None,
                    "raw_metadata": None, "window": (0, 1 << 62)}, newdata)
        idx_writes = [(n, c) for (n, c, fdp) in crash.visible_writes(base) if "/index-v5/" in fdp]
        ctx.rm(bdir)
        reps = 1 if sc.mode.startswith("sync") else 2
        jobs = [(n, None, rep) for n in range(1, T + 1) for rep in range(reps)]
        for (n, c) in idx_writes:
            if not ctx.quick:
                step = 1
            elif sc.mode == "sync@astd" and sc.name in ("utf8-key-and-metadata", "remove"):
                step = 1      # every prefix, incl. every cut inside a multi-byte character
            else:
                step = 5 if sc.mode.startswith("sync") else 11
            if sc.name == "huge-metadata":
                step = 7 if not ctx.quick else 263 if sc.mode.startswith("sync") else 911
            for k in range(0, c, step):
                jobs.append((n, k, 0))
        ctx.count(f"visible_calls[{sc.name}@{sc.mode}]", T)
        ctx.count("index_append_bytes", sum(c for _n, c in idx_writes))

        def one(job, sc=sc, si=si, tdir=tdir):
            n, k, rep = job
            rdir = os.path.join(work, f"r{si}-{n}-{k}-{rep}")
            cache = crash.instantiate(tdir, rdir)
            res = sysm.run([crash.oneshot_cmd(sc, cache)], [cache], work, kill_at=n, torn=k, timeout=60)
            return (job, rdir, cache, res)

        for (job, rdir, cache, res) in crash.pmap(one, jobs):
            n, k, rep = job
            if res.timed_out:
                ctx.inconc(f"{sc.name}@{sc.mode} kill-at {n}: watchdog")
                ctx.rm(rdir)
                continue
            ctx.count("killed_runs" if res.killed else "runs_finished_before_kill_point")
            if k is not None:
                ctx.count("torn_index_appends")
            try:
                with open(ref.bucket_path(cache, key), "rb") as f:
                    bucket_states.add(f.read())
            except OSError:
                bucket_states.add(None)
            ctx.case(distinct_key=(sc.name, sc.mode, n, k),
                     sample={"scenario": sc.name, "mode": sc.mode, "kill_at": n, "torn": k, "visible_calls": T}
                     if (n * 7 + (k or 0)) % 211 == 0 and rep == 0 else None)
            det = {"scenario": sc.name, "mode": sc.mode, "kill_at": n, "torn": k, "key": key,
                   "steps": [["sync@astd", q] for q in sc.prep] + [[sc.mode, sc.req]], "sysmon_argv": res.argv[:12]}
            sig = f"{sc.name}|{sc.mode}|{'torn-append' if k is not None else 'kill'}"
            which = judge_state(ctx, cache, key, old, new, sig, det)
            if which is not None:
                ctx.count(f"post_state[{which}]")
                conts = CONTINUATIONS if not ctx.quick else [CONTINUATIONS[(n + (k or 0)) % len(CONTINUATIONS)]]
                if ctx.quick and sc.name == "huge-metadata" and "retry-interrupted" not in conts:
                    conts = conts + ["retry-interrupted"]     # the same large record again
                for ci, cname in enumerate(conts):
                    c2 = cache
                    if len(conts) > 1 and ci < len(conts) - 1:
                        c2dir = rdir + f"-c{ci}"
                        shutil.copytree(rdir, c2dir, symlinks=True)
                        c2 = os.path.join(c2dir, "cache")
                    continuation(ctx, c2, key, old, new, which, cname, sig, det, sc)
                    if c2 != cache:
                        ctx.rm(os.path.dirname(c2))
            ctx.rm(rdir)
        ctx.rm(work)
    ctx.extra["distinct_bucket_byte_strings"] = len(bucket_states)
    ctx.extra["scenarios"] = [f"{s.name}@{s.mode}" for s in scs]


def same_entry(obs, exp):
    if exp is None:
        return obs is None
    return obs is not None and not entry_diffs(obs, exp[0])


def judge_state(ctx, cache, key, old, new, sig, det):
    """Returns 'old' | 'new' | None(violation)."""
    seen = []
    for m in ("sync@astd", "async@astd", "async@tok"):
        md = ctx.call(m, {"op": "metadata", "cache": cache, "key": key})
        rd = ctx.call(m, {"op": "read", "cache": cache, "key": key})
        ctx.count("post_kill_lookups")
        if not ev.is_ok(md):
            ctx.violation(sig + f"|lookup-{ev.variant(md)}@{m}", f"after the kill, metadata({key!r}) in {m} fails: {ev.brief(md)}", det)
            return None
        o = md["ok"]["entry"]
        if same_entry(o, new) and not (old == new):
            st = "new"
        elif same_entry(o, old):
            st = "old"
        else:
            ctx.violation(sig + f"|neither-old-nor-new@{m}",
                          f"after the kill, lookup of {key!r} in {m} is neither the previous nor the new entry: {str(o)[:200]}", det)
            return None
        exp = new if st == "new" else old
        if exp is None:
            if ev.variant(rd) != "EntryNotFound":
                ctx.violation(sig + f"|read-{ev.variant(rd)}@{m}", f"key absent but read gives {ev.brief(rd)}", det)
                return None
        elif not ev.is_ok(rd) or drv.data_bytes(rd["ok"]["data"]) != exp[1]:
            ctx.violation(sig + f"|{st}-entry-unreadable@{m}",
                          f"after the kill the {st} entry of {key!r} is visible in {m} but read gives {ev.brief(rd)}", det)
            return None
        seen.append(st)
    if len(set(seen)) > 1:
        ctx.violation(sig + "|readers-disagree", f"fresh readers disagree about the state after the kill: {seen}", det)
        return None
    # bystanders and listing
    lst = ctx.call("sync@astd", {"op": "list", "cache": cache})
    listed = {e["key"]: e for e in lst["ok"]["items"] if "err" not in e} if ev.is_ok(lst) else None
    if listed is None or any("err" in e for e in lst["ok"]["items"]):
        ctx.violation(sig + "|list", f"list after the kill: {ev.brief(lst)}", det)
        return None
    for bk, bd in BYSTANDERS:
        md = ctx.call("sync@astd", {"op": "metadata", "cache": cache, "key": bk})
        rd = ctx.call("async@tok", {"op": "read", "cache": cache, "key": bk})
        exp = {"key": bk, "integrity": ref.sri("sha256", bd), "time": 42, "size": len(bd), "metadata": {"b": bk}, "raw_metadata": None}
        if not ev.is_ok(md) or entry_diffs(md["ok"]["entry"], exp) or not ev.is_ok(rd) or drv.data_bytes(rd["ok"]["data"]) != bd \
                or bk not in listed or entry_diffs(listed[bk], exp):
            ctx.violation(sig + "|bystander-changed", f"bystander key {bk!r} changed after the kill: {ev.brief(md)} / {ev.brief(rd)}", det)
            return None
    st = seen[0]
    exp = new if st == "new" else old
    if (key in listed) != (exp is not None) or (exp is not None and entry_diffs(listed[key], exp[0])):
        ctx.violation(sig + "|list-vs-lookup", f"listing disagrees with lookup for {key!r} after the kill", det)
        return None
    return st


def continuation(ctx, cache, key, old, new, which, cname, sig, det, sc=None):
    m = ["sync@astd", "async@astd", "async@tok"][hash(cname) % 3]
    cur = new if which == "new" else old
    ctx.count(f"continuations[{cname}]")
    if cname in ("write-same-shorter", "write-same-longer", "rewrite-old"):
        data = {"write-same-shorter": b"s", "write-same-longer": b"L" * 3000, "rewrite-old": old[1] if old else b"OLD VALUE"}[cname]
        md = None if cname == "write-same-shorter" else {"pad": "p" * 900} if cname == "write-same-longer" else None
        opts = {"time": "9999"}
        if md:
            opts["metadata"] = md
        w = ctx.call(m, {"op": "writer", "cache": cache, "key": key, "opts": opts, "chunks": [ctx.data(data)]})
        exp = ({"key": key, "integrity": ref.sri("sha256", data), "time": 9999, "size": len(data), "metadata": md, "raw_metadata": None}, data)
    elif cname == "remove":
        w = ctx.call(m, {"op": "remove", "cache": cache, "key": key})
        exp = None
    elif cname == "retry-interrupted":
        # what a caller does first after a crash: the very same call again (byte-identical request, same explicit time)
        if sc is None or new == "oneshot":
            return
        m = sc.mode
        w = ctx.call(m, crash.subst(sc.req, cache))
        exp = new
    else:
        w = ctx.call(m, {"op": "write", "cache": cache, "key": "another-key", "data": ctx.data(b"another")})
        exp = cur
    if not ev.is_ok(w):
        ctx.violation(sig + f"|continuation-{cname}-{ev.variant(w)}", f"after the crash a later {cname} in {m} fails: {ev.brief(w)}", det)
        return
    for mm in ("sync@astd", "async@tok"):
        md_ = ctx.call(mm, {"op": "metadata", "cache": cache, "key": key})
        rd = ctx.call(mm, {"op": "read", "cache": cache, "key": key})
        okay = ev.is_ok(md_) and same_entry(md_["ok"]["entry"], exp)
        if okay and exp is not None:
            okay = ev.is_ok(rd) and drv.data_bytes(rd["ok"]["data"]) == exp[1]
        if not okay:
            ctx.violation(sig + f"|continuation-{cname}-not-visible@{mm}",
                          f"after the crash, {cname} in {m} succeeded but {mm} then sees {ev.brief(md_)} / {ev.brief(rd)}", det)
            return
    if cname == "write-other":
        r2 = ctx.call("sync@astd", {"op": "read", "cache": cache, "key": "another-key"})
        if not ev.is_ok(r2) or drv.data_bytes(r2["ok"]["data"]) != b"another":
            ctx.violation(sig + "|continuation-other-key", f"write to another key after the crash not readable: {ev.brief(r2)}", det)
