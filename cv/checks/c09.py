"""C09 — removals remove exactly what they name and nothing else.
Model-based random histories; after every removal the whole model state
(every key and every address ever used) is compared with the cache."""
from .. import drv, ev, gen, hist, ref
from ..model import Model


def full_probe(mode, cache, keys, sris):
    st = []
    for k in keys:
        st.append({"mode": mode, "req": {"op": "metadata", "cache": cache, "key": k}, "probe": True})
        st.append({"mode": mode, "req": {"op": "read", "cache": cache, "key": k}, "probe": True})
    for s in sris:
        st.append({"mode": mode, "req": {"op": "exists", "cache": cache, "sri": s}, "probe": True})
        st.append({"mode": mode, "req": {"op": "read_hash", "cache": cache, "sri": s}, "probe": True})
    st.append({"mode": "sync@astd", "req": {"op": "list", "cache": cache}, "probe": True})
    return st


def run(ctx):
    rng = ctx.rng
    modes = drv.QUICK_MODES if ctx.quick else drv.ALL_MODES
    nh = 250 if ctx.quick else 5000
    ctx.rule = ("seeded histories of 20-100 steps over 6-12 keys (hostile + random, some never written) and 3-5 "
                "distinct contents shared between keys, mixing writes with remove / remove_hash / remove_fully / "
                "clear through sync and async entry points; after every removal every key (metadata, read) and "
                "every address (exists, read_hash) and the listing are compared with the model. distinct = "
                "distinct (removal kind, model state before it) pairs")
    ctx.assumptions = ["single process at a time", "open outcomes (remove_fully of an absent key / missing content, "
                       "remove_hash of absent content) accept Err with unchanged state"]
    for h in range(nh):
        cache = ctx.new_cache()
        nkeys = rng.randint(6, 12)
        keys = list(dict.fromkeys(rng.sample(gen.HOSTILE_KEYS, nkeys // 2) +
                                  [gen.rand_unicode_key(rng) for _ in range(nkeys - nkeys // 2)]))
        contents = [gen.data(rng, gen.size(rng)) for _ in range(rng.randint(3, 5))]
        contents = list(dict.fromkeys(contents))
        algos = [hist.sha_algo(rng) for _ in contents]
        sris = [ref.sri(a, c) for a, c in zip(algos, contents)]
        mixed = rng.random() < 0.5
        pure = rng.choice(modes)
        length = rng.randint(20, 50 if ctx.quick else 100)
        model = Model()
        steps_done = []
        ok = True
        for j in range(length):
            m = rng.choice(modes) if mixed else pure
            r = rng.random()
            batch = []
            if r < 0.45:
                ci = rng.randrange(len(contents))
                k = rng.choice(keys[:-2])  # the last two keys are never written
                batch.append({"mode": m, "req": {"op": "write", "cache": cache, "key": k, "algo": algos[ci],
                                                 "data": ctx.data(contents[ci])}, "data": contents[ci]})
            elif r < 0.52:
                ci = rng.randrange(len(contents))
                batch.append({"mode": m, "req": {"op": "write_hash", "cache": cache, "algo": algos[ci],
                                                 "data": ctx.data(contents[ci])}, "data": contents[ci]})
            else:
                kind = rng.choice(["remove", "remove", "remove_hash", "remove_hash", "remove_fully", "remove_fully",
                                   "remove_opts", "clear"] if rng.random() < 0.9 else ["clear"])
                if kind in ("remove", "remove_fully", "remove_opts"):
                    req = {"op": kind, "cache": cache, "key": rng.choice(keys)}
                elif kind == "remove_hash":
                    req = {"op": kind, "cache": cache, "sri": rng.choice(sris)}
                else:
                    req = {"op": "clear", "cache": cache}
                batch.append({"mode": m, "req": req, "removal": kind})
                pm = rng.choice(modes) if mixed else pure
                batch.extend(full_probe(pm, cache, keys, sris))
                if kind == "clear":
                    # the cache must stay usable
                    ci = rng.randrange(len(contents))
                    batch.append({"mode": m, "req": {"op": "write", "cache": cache, "key": keys[0], "algo": algos[ci],
                                                     "data": ctx.data(contents[ci])}, "data": contents[ci]})
                    batch.append({"mode": pm, "req": {"op": "read", "cache": cache, "key": keys[0]}, "probe": True})
            resps = hist.execute(ctx, batch)
            for s, rsp in zip(batch, resps):
                before = model.state_id() if s.get("removal") else None
                probs, obs = hist.judge(model, s, rsp)
                steps_done.append(s)
                if s.get("removal"):
                    ctx.count(f"removal[{s['removal']}@{s['mode']}]")
                    ctx.case(distinct_key=(s["removal"], before),
                             sample={"removal": s["req"], "mode": s["mode"], "result": obs,
                                     "live_keys_before": len(before[0]), "contents_before": len(before[1])}
                             if ctx.counters["evaluations"] % 211 == 0 else None)
                if s.get("probe"):
                    ctx.count("state_comparisons")
                if probs:
                    last_removal = next((x for x in reversed(steps_done) if x.get("removal")), None)
                    kindname = last_removal["removal"] if last_removal else "none"
                    ctx.violation(f"{kindname}|{s['req']['op']}|{'mixed' if mixed else pure}",
                                  f"history {h}: after {kindname}: {probs[0]}",
                                  {"history": h, "problems": probs[:5],
                                   "steps": [[x["mode"], x["req"]] for x in steps_done]})
                    ok = False
                    break
            if not ok:
                break
        ctx.rm(cache.rsplit("/", 1)[0])
    ctx.count("histories", nh)
