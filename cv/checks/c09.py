"""C09 — removals remove exactly what they name and nothing else.
Model-based random histories; after every removal the whole model state
(every key and every address ever used) is compared with the cache."""
from .. import drv, ev, gen, hist, ref
from ..model import Model


def full_probe(mode, cache, keys, sris):
    st = []
    for k in keys:
        st.append({"mode": mode, "req": {"op": "metadata", "cache": cache, "key": k}, "probe": True})
        st.append({"mode": mode, "req": {"op": "read", "cache": cache, "key": k}, "probe": True})
    for s in sris:
        st.append({"mode": mode, "req": {"op": "exists", "cache": cache, "sri": s}, "probe": True})
        st.append({"mode": mode, "req": {"op": "read_hash", "cache": cache, "sri": s}, "probe": True})
    st.append({"mode": "sync@astd", "req": {"op": "list", "cache": cache}, "probe": True})
    return st


def run(ctx):
    rng = ctx.rng
    modes = drv.QUICK_MODES if ctx.quick else drv.ALL_MODES
    nh = 250 if ctx.quick else 5000
    ctx.rule = ("seeded histories of 20-100 steps over 6-12 keys (hostile + random, some never written) and 3-5 "
                "distinct contents shared between keys, mixing writes with remove / remove_hash / remove_fully / "
                "clear through sync and async entry points; after every removal every key (metadata, read) and "
                "every address (exists, read_hash) and the listing are compared with the model. distinct = "
                "distinct (removal kind, model state before it) pairs")
    ctx.assumptions = ["single process at a time", "open outcomes (remove_fully of an absent key / missing content, "
                       "remove_hash of absent content) accept Err with unchanged state"]
    for h in range(nh):
        cache = ctx.new_cache()
        nkeys = rng.randint(6, 12)
        keys = list(dict.fromkeys(rng.sample(gen.HOSTILE_KEYS, nkeys // 2) +
                                  [gen.rand_unicode_key(rng) for _ in range(nkeys - nkeys // 2)]))
        contents = [gen.data(rng, gen.size(rng)) for _ in range(rng.randint(3, 5))]
        if h % 3 == 0:
            contents[0] = b""        # empty content is content too (its address exists, keys point at it)
        contents = list(dict.fromkeys(contents))
        algos = [hist.sha_algo(rng) for _ in contents]
        sris = [ref.sri(a, c) for a, c in zip(algos, contents)]
        mixed = rng.random() < 0.5
        pure = rng.choice(modes)
        length = rng.randint(20, 50 if ctx.quick else 100)
        model = Model()
        steps_done = []
        ok = True
        for j in range(length):
            m = rng.choice(modes) if mixed else pure
            r = rng.random()
            batch = []
            if r < 0.45:
                ci = rng.randrange(len(contents))
                k = rng.choice(keys[:-2])  # the last two keys are never written
                if rng.random() < 0.3:
                    # explicit timestamps, also far in the future: a later removal must win regardless
                    batch.append({"mode": m, "req": {"op": "writer", "cache": cache, "key": k,
                                                     "opts": {"algo": algos[ci], "time": str(gen.time_value(rng))},
                                                     "chunks": [ctx.data(contents[ci])]}, "data": contents[ci]})
                else:
                    batch.append({"mode": m, "req": {"op": "write", "cache": cache, "key": k, "algo": algos[ci],
                                                     "data": ctx.data(contents[ci])}, "data": contents[ci]})
            elif r < 0.52:
                ci = rng.randrange(len(contents))
                batch.append({"mode": m, "req": {"op": "write_hash", "cache": cache, "algo": algos[ci],
                                                 "data": ctx.data(contents[ci])}, "data": contents[ci]})
            else:
                kind = rng.choice(["remove", "remove", "remove_hash", "remove_hash", "remove_fully", "remove_fully",
                                   "remove_opts", "clear"] if rng.random() < 0.9 else ["clear"])
                if kind in ("remove", "remove_fully", "remove_opts"):
                    req = {"op": kind, "cache": cache, "key": rng.choice(keys)}
                elif kind == "remove_hash":
                    req = {"op": kind, "cache": cache, "sri": rng.choice(sris)}
                    if rng.random() < 0.3:
                        # an address that lists hashes of several algorithms: the content it names is the one of its
                        # strongest hash - nothing else may go, whether or not that content is there
                        extra = rng.choice(sris)
                        ghost = ref.sri(rng.choice(["sha512", "sha384", "sha256"]), rng.randbytes(9))
                        req["sri"] = " ".join(dict.fromkeys(rng.sample([req["sri"], extra, ghost], 3)[:rng.choice([2, 3])]))
                        ctx.count("multi_algorithm_remove_hash")
                else:
                    req = {"op": "clear", "cache": cache}
                batch.append({"mode": m, "req": req, "removal": kind})
                pm = rng.choice(modes) if mixed else pure
                batch.extend(full_probe(pm, cache, keys, sris))
                if kind == "clear":
                    # the cache must stay usable
                    ci = rng.randrange(len(contents))
                    batch.append({"mode": m, "req": {"op": "write", "cache": cache, "key": keys[0], "algo": algos[ci],
                                                     "data": ctx.data(contents[ci])}, "data": contents[ci]})
                    batch.append({"mode": pm, "req": {"op": "read", "cache": cache, "key": keys[0]}, "probe": True})
            resps = hist.execute(ctx, batch)
            for s, rsp in zip(batch, resps):
                before = model.state_id() if s.get("removal") else None
                probs, obs = hist.judge(model, s, rsp)
                steps_done.append(s)
                if s.get("removal"):
                    ctx.count(f"removal[{s['removal']}@{s['mode']}]")
                    ctx.case(distinct_key=(s["removal"], before),
                             sample={"removal": s["req"], "mode": s["mode"], "result": obs,
                                     "live_keys_before": len(before[0]), "contents_before": len(before[1])}
                             if ctx.counters["evaluations"] % 211 == 0 else None)
                if s.get("probe"):
                    ctx.count("state_comparisons")
                if probs:
                    last_removal = next((x for x in reversed(steps_done) if x.get("removal")), None)
                    kindname = last_removal["removal"] if last_removal else "none"
                    ctx.violation(f"{kindname}|{s['req']['op']}|{'mixed' if mixed else pure}",
                                  f"history {h}: after {kindname}: {probs[0]}",
                                  {"history": h, "problems": probs[:5],
                                   "steps": [[x["mode"], x["req"]] for x in steps_done]})
                    ok = False
                    break
            if not ok:
                break
        ctx.rm(cache.rsplit("/", 1)[0])
    ctx.count("histories", nh)
    concurrent_bystanders(ctx, modes)


def shard_twins():
    """Two keys whose bucket files share both shard directories (index-v5/ab/cd/)."""
    import hashlib
    seen = {}
    i = 0
    while True:
        k = f"twin-{i}"
        h = hashlib.sha1(k.encode()).hexdigest()[:4]
        if h in seen:
            return seen[h], k
        seen[h] = k
        i += 1


def concurrent_bystanders(ctx, modes):
    """A removal names one key; an operation on ANOTHER key running at the same time must not lose its effect.
    remove / remove_fully of k1 race (under supervisor-chosen schedules) with a write of k2 whose bucket lives in
    the same index directories."""
    import os
    from .. import crash, sysm
    from . import c07
    k1, k2 = shard_twins()
    d1, d2 = b"victim data", b"bystander written concurrently"
    work = ctx.new_dir("conc")
    nrand = 30 if ctx.quick else 400
    for removal in ("remove_fully", "remove"):
        pt = {"name": f"{removal}(k1)||W(k2)-same-shard", "prep": [c07.W(ctx, k1, d1, 5)],
              "ops": [{"op": removal, "cache": "<C>", "key": k1}, c07.W(ctx, k2, d2, 9)], "keys": [k1, k2], "sris": []}
        for mode in modes:
            tdir = os.path.join(work, f"t-{removal}-{mode.replace('@', '-')}")
            os.makedirs(tdir)
            crash.build_template(ctx, crash.Scenario(pt["name"], mode, None, pt["prep"]), tdir)
            jobs = []
            for i in range(nrand):
                prefix = []
                if ctx.rng.random() < 0.6:
                    for _ in range(ctx.rng.randint(1, 3)):
                        prefix += [ctx.rng.randrange(2)] * ctx.rng.randint(1, 10)
                jobs.append((prefix, f"rand:{ctx.seed * 31 + i}"))

            def one(job, pt=pt, mode=mode, tdir=tdir):
                prefix, tail = job
                rdir = os.path.join(work, f"s-{os.getpid()}-{__import__('time').time_ns()}")
                cache = crash.instantiate(tdir, rdir)
                variant, m = drv.MODES[mode]
                cmds = [sysm.oneshot(variant, crash.subst(q, cache), m) for q in pt["ops"]]
                res = sysm.run(cmds, [cache], work, sched=prefix, tail=tail, nosched="fstat", timeout=60)
                return rdir, cache, res

            inter = set()
            for rdir, cache, res in crash.pmap(one, jobs):
                if res.timed_out:
                    ctx.inconc(f"{pt['name']} in {mode}: supervisor watchdog")
                    ctx.rm(rdir)
                    continue
                r0 = (res.responses(0) or [{"died": {}}])[0]
                r1 = (res.responses(1) or [{"died": {}}])[0]
                order = tuple(e["proc"] for e in res.events if e.get("sched") and "name" in e)
                inter.add(order)
                ctx.case(distinct_key=("concurrent", removal, mode, order),
                         sample={"concurrent": pt["name"], "mode": mode, "interleaving": list(order)[:40]} if len(inter) % 25 == 1 else None)
                ctx.count("concurrent_removal_schedules")
                det = {"pair": pt["name"], "mode": mode, "keys": [k1, k2], "interleaving": list(order), "results": [ev.brief(r0), ev.brief(r1)],
                       "steps": [["sync@astd", q] for q in pt["prep"]] + [[mode, q] for q in pt["ops"]], "sysmon_argv": res.argv[:14]}
                md = ctx.call("sync@astd", {"op": "metadata", "cache": cache, "key": k2})
                rd = ctx.call("async@tok", {"op": "read", "cache": cache, "key": k2})
                if ev.is_ok(r1):
                    if not ev.is_ok(md) or md["ok"]["entry"] is None or not ev.is_ok(rd) or drv.data_bytes(rd["ok"]["data"]) != d2:
                        ctx.violation(f"concurrent|{removal}|{mode}|other-key-lost",
                                      f"{removal}({k1!r}) ran concurrently with a successful write of another key {k2!r} (same index "
                                      f"directories): afterwards {k2!r} gives {ev.brief(md)} / {ev.brief(rd)}", det)
                elif ev.is_panic(r1) or ev.is_panic(r0):
                    ctx.violation(f"concurrent|{removal}|{mode}|panic", f"{pt['name']}: {ev.brief(r0)} / {ev.brief(r1)}", det)
                m1 = ctx.call("sync@astd", {"op": "metadata", "cache": cache, "key": k1})
                if ev.is_ok(r0) and not (ev.is_ok(m1) and m1["ok"]["entry"] is None):
                    ctx.violation(f"concurrent|{removal}|{mode}|removed-key-still-there", f"{removal} returned Ok but {k1!r} is still found", det)
                ctx.rm(rdir)
            ctx.extra.setdefault("concurrent_distinct_interleavings", {})[f"{removal}@{mode}"] = len(inter)
            ctx.rm(tdir)
