"""C15 — effects stay inside the cache directory; keys are opaque; reads do not mutate.
System-call trace monitor (ptrace) over hostile and confusable keys."""
import hashlib
import os

from .. import build, crash, drv, ev, gen, ref, sysm

READ_ONLY = {"read", "read_hash", "reader", "metadata", "exists", "list", "index_find", "index_ls"}
EXTRACT = {"copy", "copy_hash", "copy_unchecked", "copy_hash_unchecked", "hard_link", "hard_link_hash",
           "hard_link_unchecked", "hard_link_hash_unchecked", "reflink", "reflink_hash", "reflink_unchecked",
           "reflink_hash_unchecked"}
NONFILE = ("pipe:", "socket:", "anon_inode:", "/proc/", "/sys/", "/memfd:")


def nonfile(t):
    """fd targets that are not files of a mounted file system (runtime plumbing, devices)."""
    return t.startswith(NONFILE) or (t.startswith("/dev/") and not t.startswith("/dev/shm/"))


def snapshot(root):
    out = {}
    for dp, dn, fn in os.walk(root):
        for n in dn + fn:
            p = os.path.join(dp, n)
            st = os.lstat(p)
            h = None
            if os.path.isfile(p) and not os.path.islink(p):
                h = hashlib.sha1(open(p, "rb").read()).hexdigest()
            out[os.path.relpath(p, root)] = (st.st_mode, st.st_size if h is not None else 0, st.st_mtime_ns, h)
    return out


HARNESS_OPS = {"rmtree", "chdir", "sleep", "ping", "chmod"}
LINK_BYTES = b"bytes of a file that two owners have"


def script_for(ctx, cache, key, data, dest, target, mode, owner=None):
    m = drv.MODES[mode][1]
    sri = ref.sri("sha256", data)

    def R(op, **kw):
        q = {"op": op, "cache": cache, "mode": m}
        q.update(kw)
        if m == "async" and op in ("list", "index_ls", "hard_link_hash", "hard_link_unchecked", "hard_link_hash_unchecked",
                                   "reflink_hash_unchecked"):
            q["mode"] = "sync"
        return q

    return [
        R("write", key=key, data=ctx.data(data)),
        R("metadata", key=key),
        R("read", key=key),
        R("reader", key=key, bufs=[3]),
        R("read_hash", sri=sri),
        R("exists", sri=sri),
        R("index_find", key=key),
        R("list"),
        R("copy", key=key, to=os.path.join(dest, "copy")),
        R("copy_hash_unchecked", sri=sri, to=os.path.join(dest, "copyu")),
        R("hard_link", key=key, to=os.path.join(dest, "hl")),
        R("hard_link_hash_unchecked", sri=sri, to=os.path.join(dest, "hlu")),
        R("reflink", key=key, to=os.path.join(dest, "rl")),
        R("reflink_unchecked", key=key, to=os.path.join(dest, "rlu")),
        # again, onto destinations that now exist (and have neighbours called <name>.tmp / .bak / ~)
        R("copy", key=key, to=os.path.join(dest, "copy")),
        R("copy_unchecked", key=key, to=os.path.join(dest, "report.bin")),
        R("copy_hash", sri=sri, to=os.path.join(dest, "archive.tar.gz")),
        R("hard_link", key=key, to=os.path.join(dest, "hl")),
        # the destination is an existing DIRECTORY: whatever the call makes of that, the key must not become a file name
        R("copy", key=key, to=os.path.join(os.path.dirname(dest), "dirdest")),
        R("copy_unchecked", key=key, to=os.path.join(os.path.dirname(dest), "dirdest")),
        R("writer", key=key, opts={"size": len(data) + 1, "metadata": {"m": 1}}, chunks=[ctx.data(data), ctx.data(b"!")]),
        R("writer", key=key, opts={}, chunks=[ctx.data(data)], final="drop"),
        R("write_hash", data=ctx.data(data + b"#")),
        R("link_to", key=key + "-linked", target=target),
        R("read", key=key + "-linked"),
        R("remove", key=key),
        R("metadata", key=key),
        R("write", key=key, data=ctx.data(data)),
        R("remove_hash", sri=ref.sri("sha256", data + b"#")),
        R("remove_fully", key=key),
        R("read", key=key),
        R("list"),
    ] + ([
        # life cycle of a linked file: its owner deletes it; the same bytes then arrive again from another owner, through
        # an ordinary write, and are removed. Nothing of this may touch (or re-create) anything in the owners' directories
        R("link_to", key=key + "-l1", target=os.path.join(owner, "old", "data.bin")),
        R("read", key=key + "-l1"),
        {"op": "rmtree", "path": os.path.join(owner, "old", "data.bin")},
        R("read", key=key + "-l1"),
        R("link_to", key=key + "-l2", target=os.path.join(owner, "new", "data.bin")),
        R("read", key=key + "-l2"),
        R("write", key=key + "-l3", data=ctx.data(LINK_BYTES)),
        R("read", key=key + "-l3"),
        R("read_hash", sri=ref.sri("sha256", LINK_BYTES)),
        R("remove_hash", sri=ref.sri("sha256", LINK_BYTES)),
        R("link_to", key=key + "-l2", target=os.path.join(owner, "new", "data.bin")),
        R("remove_fully", key=key + "-l2"),
        # the owner's file is read-only; the link to it is removed by address
        R("link_to", key=key + "-l2", target=os.path.join(owner, "new", "data.bin")),
        R("remove_hash", sri=ref.sri("sha256", LINK_BYTES)),
        R("read", key=key + "-l2"),
        # an extracted hard link (same inode as the content file) that its owner made read-only, then removal by address
        R("write", key=key + "-l4", data=ctx.data(LINK_BYTES + b" 4")),
        R("hard_link", key=key + "-l4", to=os.path.join(owner, "new", "extracted-hard-link")),
        {"op": "chmod", "path": os.path.join(owner, "new", "extracted-hard-link"), "mode": 0o444},
        R("remove_hash", sri=ref.sri("sha256", LINK_BYTES + b" 4")),
        R("remove", key=key + "-l4"),
    ] if owner else [])


def split_ops(events):
    """Group in_op events by operation (between begin/end markers of proc 0)."""
    ops, cur = [], None
    for e in events:
        if e.get("marker") == "begin":
            cur = []
        elif e.get("marker") == "end":
            if cur is not None:
                ops.append(cur)
            cur = None
        elif cur is not None and "name" in e:
            cur.append(e)
    return ops


def allowed_paths(cache, keys, sris):
    """Exact set of paths (and their parent directories) the library may touch for these keys/addresses."""
    al = {cache, os.path.join(cache, "tmp"), os.path.join(cache, "index-v5"), os.path.join(cache, "content-v2")}
    for k in keys:
        p = ref.bucket_path(cache, k)
        while len(p) > len(cache):
            al.add(p)
            p = os.path.dirname(p)
    for s in sris:
        a, h = ref.sri_address(s)
        p = ref.content_path(cache, a, h)
        while len(p) > len(cache):
            al.add(p)
            p = os.path.dirname(p)
    return al


def run(ctx):
    rng = ctx.rng
    modes = drv.QUICK_MODES if ctx.quick else drv.ALL_MODES
    nkeys = 30 if ctx.quick else 200
    ctx.rule = ("for each hostile key (path separators, '..', absolute paths, NUL/control characters, 64 KiB, random "
                "Unicode) and mode, a 26-operation script (writes, reads, lookups, listing, every extraction kind, "
                "link_to, removals; plus symlinks to an outside directory planted inside the cache before clear) runs as one traced process with TMPDIR, HOME and cwd pointing into a decoy tree; the "
                "monitor inspects EVERY path-taking system call made between the operation markers: successful "
                "mutating calls must target the cache directory or the explicit destination; read-only operations "
                "must make no mutating call at all; every path under the cache must be tmp/*, the SHA-1-derived bucket "
                "path of the key or the digest-derived content path (or a parent); the decoy tree must be byte- and "
                "mtime-identical afterwards. Confusable key groups (case, NFC/NFD, separators, trailing dot/space, "
                "NUL) are written with different data and must read back their own. distinct = (key, mode, operation)")
    ctx.assumptions = ["the cache directory's parent exists", "writes to pipes/eventfds/devices by the async runtimes "
                       "are not file-system mutations"]
    keys = ["../../etc/passwd", "/abs/path", "a/b", "..", ".", "con", "x\x00y", "\x01\x1f", "k" * 65536, "café",
            "da39a3ee5e6b4b0d3255bfef95601890afd80709", "ABCDEF0123456789abcdef0123456789ABCDEF01", "aa/bb/" + "c" * 36]
    keys = keys[:nkeys] + [rng.choice(gen.HOSTILE_KEYS) if rng.random() < 0.5 else gen.rand_unicode_key(rng)
                           for _ in range(max(0, nkeys - 13))]
    keys = list(dict.fromkeys(keys))
    total_calls = visible_calls = mutating_inside = 0
    for ki, key in enumerate(keys):
        for mode in (modes if not ctx.quick else [modes[ki % len(modes)], modes[(ki + 1) % len(modes)]]):
            base = ctx.new_dir(f"k{ki}-{mode.replace('@', '-')}")
            cache = os.path.join(base, "the-cache")
            dest = os.path.join(base, "dest")
            decoy = os.path.join(base, "decoy")
            for d in (dest, os.path.join(decoy, "tmp"), os.path.join(decoy, "home"), os.path.join(decoy, "cwd"),
                      os.path.join(decoy, "etc")):
                os.makedirs(d)
            open(os.path.join(decoy, "etc", "passwd"), "w").write("root:x:0:0\n")
            open(os.path.join(decoy, "cwd", "a"), "w").write("decoy file named a\n")
            target = os.path.join(decoy, "home", "linked-target.bin")
            open(target, "wb").write(b"link target bytes")
            data = f"data for key #{ki}".encode()
            # pre-existing destinations and look-alike neighbours: only the named destination may change
            neighbours = {}
            for nm in ("report.bin", "archive.tar.gz"):
                open(os.path.join(dest, nm), "wb").write(b"old extraction")
            for nm in ("copy.tmp", "report.tmp", "archive.tar.tmp", "archive.tmp", "copy.bak", "copy~", ".copy.swp", "hl.tmp"):
                open(os.path.join(dest, nm), "wb").write(b"neighbour " + nm.encode())
                neighbours[nm] = b"neighbour " + nm.encode()
            os.makedirs(os.path.join(base, "dirdest"))
            owner = os.path.join(base, "owner")
            for sub in ("old", "new"):
                os.makedirs(os.path.join(owner, sub))
                open(os.path.join(owner, sub, "data.bin"), "wb").write(LINK_BYTES)
                open(os.path.join(owner, sub, "other.txt"), "wb").write(b"unrelated file of this owner")
                os.chmod(os.path.join(owner, sub, "data.bin"), 0o444 if sub == "new" else 0o400)
            script = script_for(ctx, cache, key, data, dest, target, mode, owner)
            spath = os.path.join(base, "script.jsonl")
            import json
            with open(spath, "w") as f:
                for q in script:
                    f.write(json.dumps(q) + "\n")
            before = snapshot(decoy)
            owner_before = snapshot(owner)
            variant = drv.MODES[mode][0]
            res = sysm.run([[build.ensure(variant), "run", spath]], [base], base, timeout=120,
                           env={"TMPDIR": os.path.join(decoy, "tmp"), "HOME": os.path.join(decoy, "home")})
            after = snapshot(decoy)
            owner_after = snapshot(owner)
            resps = res.responses(0)
            ops = split_ops(res.events)
            if len(ops) != len(script) or len(resps) != len(script):
                ctx.inconc(f"trace of key #{ki} in {mode}: {len(ops)} traced operations / {len(resps)} responses for "
                           f"{len(script)} requests (rc={res.rc})")
                ctx.rm(base)
                continue
            sris = [ref.sri("sha256", data), ref.sri("sha256", data + b"!"), ref.sri("sha256", data + b"#"),
                    ref.sri("sha256", b"link target bytes"), ref.sri("sha256", LINK_BYTES)]
            sris.append(ref.sri("sha256", LINK_BYTES + b" 4"))
            al = allowed_paths(cache, [key, key + "-linked", key + "-l1", key + "-l2", key + "-l3", key + "-l4"], sris)
            det_base = {"key": key if len(key) < 200 else key[:50] + "...", "mode": mode}
            for q, r, evs in zip(script, resps, ops):
                op = q["op"]
                if op in HARNESS_OPS:
                    continue
                total_calls += len(evs)
                ctx.count(f"traced_ops[{op}]")
                ctx.case(distinct_key=(ki, mode, op, len(ctx.distinct) % 7),
                         sample={"key": det_base["key"], "mode": mode, "op": op, "path_calls": len(evs),
                                 "result": ev.variant(r)} if ctx.counters["evaluations"] % 173 == 0 else None)
                if ev.is_panic(r):
                    ctx.count("panics_seen_elsewhere")
                muts = 0
                for e in evs:
                    paths = [p for p in e["paths"] if p] + ([e["fd_path"]] if e.get("fd_path") else [])
                    if e.get("visible"):
                        visible_calls += 1
                    ok_ret = e.get("ret") is not None and e["ret"] >= 0
                    det = dict(det_base, op=op, call=f"{e['name']} {e['paths'] or e['fd_path']} -> {e.get('ret')}",
                               steps=[[mode, q]])
                    # (3) paths under the cache must be derived from hashes only
                    if op not in ("clear", "list", "index_ls"):
                        for p in paths:
                            # only the index and content areas have a prescribed layout; whatever else the library keeps
                            # inside the cache directory (its temp area, under any name) is not judged here
                            if p.startswith(os.path.join(cache, "index-v5") + "/") or p.startswith(os.path.join(cache, "content-v2") + "/"):
                                pp = p[:-10] if p.endswith(" (deleted)") else p
                                if pp not in al:
                                    ctx.violation(f"{op}|{mode}|path-not-derived-from-hash",
                                                  f"{op} touched {os.path.relpath(pp, cache)!r} inside the cache, which is "
                                                  f"neither the key's SHA-1 bucket path nor a known content address", det)
                    if not sysm.is_mutating(e) or not ok_ret:
                        continue
                    targets = sysm.mutation_targets(e)
                    real = [t for t in targets if t and not nonfile(t)]
                    if not real:
                        continue
                    muts += 1
                    for t in real:
                        tt = t[:-10] if t.endswith(" (deleted)") else t
                        inside = tt == cache or tt.startswith(cache + "/")
                        is_dest = op in EXTRACT and tt == q.get("to")
                        if inside:
                            mutating_inside += 1
                        if not inside and not is_dest:
                            # (1) mutation outside the cache / destination
                            ctx.violation(f"{op}|{mode}|mutation-outside-cache|{e['name']}",
                                          f"{op} performed {e['name']} on {tt!r}, outside the cache directory "
                                          f"{'and not the destination' if op in EXTRACT else ''}", det)
                    if op in READ_ONLY:
                        # (2) read-only calls perform no mutation at all
                        ctx.violation(f"{op}|{mode}|read-only-op-mutates|{e['name']}",
                                      f"read-only operation {op} performed {e['name']} on {real}", det)
                if op in READ_ONLY:
                    ctx.count("read_only_ops_with_zero_mutations" if muts == 0 else "read_only_ops_with_mutations")
            # (2b) read-only calls on DAMAGED content: still no mutation (no "self-healing" unlink, no quarantine rename)
            if ki < 6 or not ctx.quick:
                dkey = "damaged-entry"
                ddata = b"content that will be damaged " * 3
                w = ctx.call("sync@astd", {"op": "write", "cache": cache, "key": dkey, "data": ctx.data(ddata)})
                if ev.is_ok(w):
                    dsri = w["ok"]["sri"]
                    cp = ref.content_path_sri(cache, dsri)
                    for how in ("flip", "truncate"):
                        with open(cp, "wb") as f:
                            f.write(ddata[:10] + b"X" + ddata[11:] if how == "flip" else ddata[:20])
                        m = drv.MODES[mode][1]
                        dscript = [{"op": "read", "mode": m, "cache": cache, "key": dkey},
                                   {"op": "read_hash", "mode": m, "cache": cache, "sri": dsri},
                                   {"op": "reader", "mode": m, "cache": cache, "key": dkey, "bufs": [16]},
                                   {"op": "metadata", "mode": m, "cache": cache, "key": dkey},
                                   {"op": "exists", "mode": m, "cache": cache, "sri": dsri},
                                   {"op": "list", "mode": "sync", "cache": cache}]
                        sp2 = os.path.join(base, "script2.jsonl")
                        with open(sp2, "w") as f:
                            for q in dscript:
                                f.write(json.dumps(q) + "\n")
                        res2 = sysm.run([[build.ensure(variant), "run", sp2]], [base], base, timeout=60)
                        for q, evs in zip(dscript, split_ops(res2.events)):
                            ctx.case(distinct_key=(ki, mode, "damaged-" + how, q["op"]))
                            ctx.count("read_only_ops_on_damaged_content")
                            for e in evs:
                                if sysm.is_mutating(e) and e.get("ret") is not None and e["ret"] >= 0:
                                    tg = [t for t in sysm.mutation_targets(e) if t and not nonfile(t)]
                                    if tg:
                                        ctx.violation(f"{q['op']}|{mode}|read-only-op-mutates|{e['name']}|damaged-content",
                                                      f"read-only operation {q['op']} on damaged ({how}) content performed "
                                                      f"{e['name']} on {tg}", dict(det_base, steps=[[mode, q]], damage=how))
                        if not os.path.exists(cp):
                            ctx.violation(f"read|{mode}|damaged-content-file-removed",
                                          "after read-only calls on damaged content the content file is gone", det_base)
                            break
            # (1c) the destination directory holds exactly the named destinations and its untouched neighbours
            named = {os.path.basename(q["to"]) for q in script if q.get("to")}
            try:
                present = set(os.listdir(dest))
            except OSError:
                present = set()
            for nm, content in neighbours.items():
                try:
                    okc = open(os.path.join(dest, nm), "rb").read() == content
                except OSError:
                    okc = False
                if not okc:
                    ctx.violation(f"extract|{mode}|neighbour-of-destination-changed",
                                  f"a file next to an extraction destination ({nm}) was changed or removed", det_base)
            extra = present - named - set(neighbours)
            if extra:
                ctx.violation(f"extract|{mode}|stray-file-next-to-destination",
                              f"extraction left files nobody named next to the destinations: {sorted(extra)[:4]}", det_base)
            # (4) decoy untouched (the link target is opened read-only; atime is not part of the snapshot)
            if before != after:
                ch = [k for k in set(before) | set(after) if before.get(k) != after.get(k)]
                ctx.violation(f"script|{mode}|decoy-changed", f"files outside the cache changed: {ch[:4]}", det_base)
            # (4b) the owners' directories: the harness itself deleted old/data.bin; nothing else may differ, and the
            # deleted file must not come back
            want = {k: v for k, v in owner_before.items() if k != "old/data.bin"}
            got = {k: v for k, v in owner_after.items()}
            for k in ("old", ".", "new"):
                want.pop(k, None)
                got.pop(k, None)       # the directories' mtimes changed with the harness's own unlink / the extraction
            # the extraction the script asked for: a read-only file with exactly the stored bytes
            ex = got.pop("new/extracted-hard-link", None)
            import stat as _stat
            if ex is not None and (_stat.S_IMODE(ex[0]) != 0o444 or ex[3] != hashlib.sha1(LINK_BYTES + b" 4").hexdigest()):
                ctx.violation(f"script|{mode}|extracted-file-changed",
                              f"a hard-linked extraction that its owner made read-only has mode {oct(_stat.S_IMODE(ex[0]))} / other "
                              f"bytes after the content was removed by address", dict(det_base, steps=[[mode, q] for q in script[-6:]]))
            if want != got:
                ch = sorted(k for k in set(want) | set(got) if want.get(k) != got.get(k))
                ctx.violation(f"script|{mode}|linked-owner-files-changed",
                              f"files of a linked file's owner (outside the cache) were created, changed or removed: {ch[:4]}",
                              dict(det_base, steps=[[mode, q] for q in script[-12:]]))
            dd = os.path.join(base, "dirdest")
            if not os.path.isdir(dd) or os.listdir(dd):
                ctx.violation(f"copy|{mode}|directory-destination-filled",
                              f"copy by key onto an existing directory created {sorted(os.listdir(dd))[:3] if os.path.isdir(dd) else 'a non-directory'} "
                              f"there (a file named after the key)", dict(det_base, steps=[[mode, q] for q in script if q.get('to', '').endswith('dirdest')]))
            ctx.count("owner_directory_censuses")
            ctx.rm(base)
    # (1b) a cache that holds nothing but index entries, inside otherwise empty parent directories: clean-up code
    # must not climb out of the cache directory
    import json as _json
    for mode in modes:
        base = ctx.new_dir(f"lonely-{mode.replace('@', '-')}")
        nest = os.path.join(base, "empty-parent-1", "empty-parent-2")
        os.makedirs(nest)
        cache = os.path.join(nest, "the-cache")
        m = drv.MODES[mode][1]
        sri = ref.sri("sha256", b"never stored")
        script = [
            {"op": "index_insert", "mode": m, "cache": cache, "key": "only-entry", "opts": {"sri": sri, "time": "1"}},
            {"op": "remove_fully", "mode": m, "cache": cache, "key": "only-entry"},
            {"op": "write", "mode": m, "cache": cache, "key": "k2", "data": {"hex": "6161"}},
            {"op": "clear", "mode": m, "cache": cache},
            {"op": "index_insert", "mode": m, "cache": cache, "key": "k3", "opts": {"sri": sri, "time": "2"}},
            {"op": "remove_fully", "mode": m, "cache": cache, "key": "k3"},
            {"op": "remove", "mode": m, "cache": cache, "key": "k4"},
            {"op": "remove_fully", "mode": m, "cache": cache, "key": "k4"},
        ]
        spath = os.path.join(base, "script.jsonl")
        with open(spath, "w") as f:
            for q in script:
                f.write(_json.dumps(q) + "\n")
        res = sysm.run([[build.ensure(drv.MODES[mode][0]), "run", spath]], [base], base, timeout=60)
        ops = split_ops(res.events)
        for q, evs in zip(script, ops):
            ctx.case(distinct_key=("lonely", mode, q["op"], q["key"] if "key" in q else ""))
            for e in evs:
                if not sysm.is_mutating(e) or e.get("ret") is None or e["ret"] < 0:
                    continue
                for t in sysm.mutation_targets(e):
                    if t and not nonfile(t) and not (t == cache or t.startswith(cache + "/")):
                        ctx.violation(f"{q['op']}|{mode}|mutation-outside-cache|{e['name']}",
                                      f"{q['op']} on a cache holding only index entries performed {e['name']} on {t!r}, outside "
                                      f"the cache directory", {"steps": [[mode, x] for x in script], "mode": mode})
        if not os.path.isdir(nest):
            ctx.violation(f"remove_fully|{mode}|parent-directory-removed",
                          "a directory above the cache directory was removed", {"steps": [[mode, x] for x in script]})
        ctx.count("lonely_index_scripts")
        ctx.rm(base)
    # (1c) symlinks to directories OUTSIDE the cache, planted at several depths inside it (by a user, a backup tool, an
    # earlier version): nothing the library does - least of all clear - may follow them and touch what they point at
    for mode in modes:
        base = ctx.new_dir(f"planted-{mode.replace('@', '-')}")
        cache = os.path.join(base, "the-cache")
        precious = os.path.join(base, "precious")
        os.makedirs(os.path.join(precious, "sub", "deeper"))
        for rel in ("a.txt", "sub/b.bin", "sub/deeper/c"):
            with open(os.path.join(precious, rel), "wb") as f:
                f.write(b"outside the cache: " + rel.encode())
        m = drv.MODES[mode][1]
        pre = [{"op": "write", "cache": cache, "key": f"p{j}", "data": {"hex": (b"planted %d" % j).hex()}} for j in range(3)]
        for q in pre:
            ctx.call("sync@astd", q)
        sri0 = ref.sri("sha256", b"planted 0")
        a0, h0 = ref.sri_address(sri0)
        plants = [os.path.join(cache, "link-at-root"), os.path.join(cache, "content-v2", "sha256", "zz-link"),
                  os.path.join(cache, "content-v2", "sha256", h0[:2], "link-next-to-content"),
                  os.path.join(cache, "index-v5", "zz-link"), os.path.join(cache, "tmp", "link-in-tmp")]
        for pl in plants:
            os.makedirs(os.path.dirname(pl), exist_ok=True)
            os.symlink(precious, pl)
        before = snapshot(precious)
        script = [
            {"op": "list", "mode": "sync", "cache": cache},
            {"op": "read", "mode": m, "cache": cache, "key": "p0"},
            {"op": "write", "mode": m, "cache": cache, "key": "p9", "data": {"hex": "6162"}},
            {"op": "remove_hash", "mode": m, "cache": cache, "sri": sri0},
            {"op": "remove_fully", "mode": m, "cache": cache, "key": "p1"},
            {"op": "clear", "mode": m, "cache": cache},
            {"op": "write", "mode": m, "cache": cache, "key": "p9", "data": {"hex": "6162"}},
            {"op": "clear", "mode": m, "cache": cache},
        ]
        resps = ctx.batch("sync@" + mode.split("@")[1], script) if m == "sync" else ctx.batch(mode, script)
        after = snapshot(precious)
        for q, r in zip(script, resps):
            ctx.case(distinct_key=("planted", mode, q["op"], ev.variant(r)))
            if ev.is_panic(r):
                ctx.count("panics_seen_elsewhere")
        if before != after:
            ch = sorted(k for k in set(before) | set(after) if before.get(k) != after.get(k))
            ctx.violation(f"planted-dir-symlinks|{mode}|outside-directory-changed",
                          f"with symlinks to an outside directory planted inside the cache, list/read/write/remove_hash/"
                          f"remove_fully/clear changed that directory: {ch[:4]}", {"steps": [[mode, x] for x in script], "mode": mode,
                                                                                  "planted": [os.path.relpath(x, cache) for x in plants]})
        ctx.count("planted_symlink_scripts")
        ctx.rm(base)
    # (1d) a cache directory whose name is not valid UTF-8 / contains multi-byte characters and spaces: every operation,
    # then a census of the directory that CONTAINS the cache - nothing may appear next to it
    for mode in modes:
        for nm in (b"cache-\xff\xfe", "d\u00e9p\u00f4t \u4e2d".encode(), b"plain"):
            base = ctx.new_dir(f"odd-{mode.replace('@', '-')}-{len(nm)}")
            cache_b = os.path.join(os.fsencode(base), nm)
            cp = "hex:" + cache_b.hex()
            dest = os.path.join(base, "dest-dir")
            os.makedirs(dest)
            m = drv.MODES[mode][1]
            sri = ref.sri("sha256", b"odd path payload")
            script = [
                {"op": "write", "cache": cp, "key": "k", "data": {"hex": b"odd path payload".hex()}},
                {"op": "writer", "cache": cp, "opts": {"size": 16}, "chunks": [{"hex": b"odd path payload".hex()}]},
                {"op": "read", "cache": cp, "key": "k"},
                {"op": "copy", "cache": cp, "key": "k", "to": os.path.join(dest, "out")},
                {"op": "list", "cache": cp, "mode": "sync"},
                {"op": "remove", "cache": cp, "key": "k"},
                {"op": "write", "cache": cp, "key": "k2", "data": {"hex": "6162"}},
                {"op": "remove_fully", "cache": cp, "key": "k2"},
                {"op": "remove_hash", "cache": cp, "sri": sri},
                {"op": "clear", "cache": cp},
            ]
            resps = ctx.batch(mode, script)
            names = set(os.listdir(os.fsencode(base)))
            extra = names - {nm, b"dest-dir"}
            for q, r in zip(script, resps):
                ctx.case(distinct_key=("odd-cache-path", mode, q["op"], len(nm), ev.variant(r)))
            if extra:
                ctx.violation(f"odd-cache-path|{mode}|sibling-of-cache-created",
                              f"with the cache directory named {nm!r} the library created {sorted(extra)[:3]} next to it",
                              {"steps": [[mode, q] for q in script], "mode": mode})
            ctx.count("odd_cache_path_scripts")
            ctx.rm(base)
    # (5) opaqueness of keys
    groups = gen.CONFUSABLE_GROUPS
    for gi, grp in enumerate(groups):
        for mode in modes:
            cache = ctx.new_cache()
            vals = {k: f"value of member {i} of group {gi}".encode() for i, k in enumerate(grp)}
            reqs = [{"op": "write", "cache": cache, "key": k, "data": ctx.data(v)} for k, v in vals.items()]
            reqs += [{"op": "read", "cache": cache, "key": k} for k in vals]
            reqs += [{"op": "metadata", "cache": cache, "key": k} for k in vals]
            rs = ctx.batch(mode, reqs)
            n = len(vals)
            for i, (k, v) in enumerate(vals.items()):
                rd, md = rs[n + i], rs[2 * n + i]
                ctx.case(distinct_key=("confusable", gi, k, mode))
                if not ev.is_ok(rs[i]):
                    ctx.violation(f"confusable|{mode}|write-{ev.variant(rs[i])}", f"write of key {k!r} failed: {ev.brief(rs[i])}", {"group": grp})
                elif not ev.is_ok(rd) or drv.data_bytes(rd["ok"]["data"]) != v or not ev.is_ok(md) or \
                        not md["ok"]["entry"] or md["ok"]["entry"]["key"] != k:
                    ctx.violation(f"confusable|{mode}|keys-collide", f"key {k!r} of confusable group {grp} does not read back its "
                                  f"own value: {ev.brief(rd)}", {"group": grp, "steps": [[mode, q] for q in reqs]})
            lst = ctx.call("sync@astd", {"op": "list", "cache": cache})
            got = sorted(e["key"] for e in lst["ok"]["items"] if "err" not in e) if ev.is_ok(lst) else None
            if got != sorted(vals):
                ctx.violation(f"confusable|{mode}|listing", f"listing of confusable group: {got} != {sorted(vals)}", {"group": grp})
            bks = {ref.bucket_rel(k) for k in vals}
            on_disk = set(ref.read_index(cache).keys())
            if on_disk != bks:
                ctx.violation(f"confusable|{mode}|bucket-paths", f"bucket files {sorted(on_disk)} != SHA-1 derived {sorted(bks)}", {"group": grp})
            ctx.count("confusable_groups")
    ctx.extra["path_taking_calls_examined"] = total_calls
    ctx.extra["visible_calls"] = visible_calls
    ctx.extra["mutating_calls_inside_cache"] = mutating_inside
    ctx.extra["keys"] = len(keys)
