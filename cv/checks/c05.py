"""C05 — a key lookup returns the most recent committed entry, or absent after
removal. Bounded-exhaustive + random histories judged by the sequential model
after every step for every key."""
import itertools

from .. import drv, ev, gen, hist, ref
from ..model import Model

SHAPES = [
    # (data, opts) chosen so that record lengths differ
    (b"v0", {}),
    (b"value-one-" * 40, {"metadata": {"note": "x" * 300, "n": [1, 2, 3]}, "time": "1700000000000"}),
    (b"", {"raw_metadata": "00ff10", "time": "5"}),
    # a timestamp far in the future: later removals and re-writes (stamped "now" or older) must still win
    (b"from the future", {"time": str(2 ** 64 + 12345), "metadata": [1, 2, 3]}),
]


def write_step(ctx, mode, cache, key, shape_idx, uniq=None):
    data, opts = SHAPES[shape_idx]
    if uniq is not None:
        data = data + uniq
    opts = dict(opts)
    if opts:
        req = {"op": "writer", "cache": cache, "key": key, "opts": opts, "chunks": [ctx.data(data)]}
    else:
        req = {"op": "write", "cache": cache, "key": key, "data": ctx.data(data)}
    return {"mode": mode, "req": req, "data": data}


def probes(mode, cache, keys, with_read=True):
    out = []
    for k in keys:
        out.append({"mode": mode, "req": {"op": "metadata", "cache": cache, "key": k}, "probe": True})
        if with_read:
            out.append({"mode": mode, "req": {"op": "read", "cache": cache, "key": k}, "probe": True})
    return out


def run_history(ctx, kind, steps, hid):
    """Execute and judge one history. steps already include probe steps."""
    resps = hist.execute(ctx, steps)
    model = Model()
    nprobe = 0
    for i, (s, r) in enumerate(zip(steps, resps)):
        if s.get("foreign"):
            continue
        probs, obs = hist.judge(model, s, r)
        if s.get("probe"):
            nprobe += 1
        if probs:
            modeclass = "mixed" if len({x["mode"] for x in steps}) > 1 else steps[0]["mode"]
            ctx.violation(f"{kind}|{s['req']['op']}|{modeclass}|{'probe' if s.get('probe') else 'mutation'}",
                          f"history {hid} step {i}: {probs[0]}",
                          {"history": hid, "step": i, "problems": probs[:5],
                           "steps": [[x["mode"], x["req"]] for x in steps[:i + 1] if not x.get("foreign")]})
            break
    ctx.count("lookups_compared", nprobe)
    return model


def run(ctx):
    rng = ctx.rng
    modes = drv.QUICK_MODES if ctx.quick else drv.ALL_MODES
    L = 3 if ctx.quick else 4
    ctx.rule = ("bounded part: ALL histories of length <= L over {write(k,shape0..2), remove(k)} x keys {a,b}, "
                "each followed after every step by metadata+read of both keys; random part: seeded histories of "
                "20-200 steps over 8 keys (hostile key set), shared values, re-insertion after removal, foreign "
                "records placed in other keys' buckets, mixed sync/async modes on one directory; twin caches: two "
                "directories used alternately by the same processes with the same keys and overlapping values, both "
                "asked after every step, one model per directory. distinct = "
                "distinct sequences of (op, key, shape) (bounded) / distinct model states reached (random)")
    ctx.assumptions = ["single process at a time (concurrency is C07)", "healthy filesystem"]
    alphabet = [("w", k, s) for k in ("a", "b") for s in range(len(SHAPES))] + [("r", k, None) for k in ("a", "b")]
    hid = 0
    states = set()
    # ---------------- bounded exhaustive
    for n in range(1, L + 1):
        for seq in itertools.product(alphabet, repeat=n):
            hid += 1
            pure = modes[hid % len(modes)]
            mixed = (hid % 4 == 0)
            cache = ctx.new_cache()
            steps = []
            for j, (op, k, s) in enumerate(seq):
                m = modes[(hid + j) % len(modes)] if mixed else pure
                if op == "w":
                    steps.append(write_step(ctx, m, cache, k, s))
                else:
                    steps.append({"mode": m, "req": {"op": "remove", "cache": cache, "key": k}})
                pm = modes[(hid + j + 1) % len(modes)] if mixed else pure
                steps.extend(probes(pm, cache, ["a", "b"]))
            run_history(ctx, "bounded", steps, f"b{hid}")
            ctx.case(distinct_key=("b", seq), sample={"kind": "bounded", "seq": [list(x) for x in seq], "mode": "mixed" if mixed else pure} if hid % 97 == 0 else None)
            ctx.rm(cache.rsplit("/", 1)[0])
    ctx.count("bounded_histories", hid)
    ctx.exhaustive = True
    ctx.extra["bounded_length"] = L
    # ---------------- random histories
    nrand = 250 if ctx.quick else 3000
    for h in range(nrand):
        cache = ctx.new_cache()
        nkeys = 8
        keys = rng.sample(gen.HOSTILE_KEYS, 4) + [gen.rand_unicode_key(rng) for _ in range(nkeys - 4)]
        keys = list(dict.fromkeys(keys))
        mixed = rng.random() < 0.5
        pure = rng.choice(modes)
        length = rng.randint(20, 60 if ctx.quick else 200)
        steps = []
        uniq = 0
        maxrec = {}
        for j in range(length):
            m = rng.choice(modes) if mixed else pure
            r = rng.random()
            k = rng.choice(keys)
            if r < 0.55:
                uniq += 1
                shared = rng.random() < 0.3
                steps.append(write_step(ctx, m, cache, k, rng.randrange(len(SHAPES)), None if shared else str(uniq).encode()))
                if rng.random() < 0.04:
                    # one record far larger than any buffer or tail window a reader might use (0.3 - 2.5 MiB on disk)
                    big = {"metadata": {"blob": "b" * rng.choice([300000, 1100000, 2300000])}, "time": str(1000 + uniq)}
                    st = {"mode": m, "req": {"op": "writer", "cache": cache, "key": k, "opts": big,
                                             "chunks": [ctx.data(b"huge-" + str(uniq).encode())]}, "data": b"huge-" + str(uniq).encode()}
                    steps.append(st)
                    ctx.count("huge_records_written")
                maxrec[k] = maxrec.get(k, 0) + 1
            elif r < 0.8:
                steps.append({"mode": m, "req": {"op": "remove", "cache": cache, "key": k}})
                maxrec[k] = maxrec.get(k, 0) + 1
            elif r < 0.9:
                # foreign record: valid record (an insert or a removal) for another key in k's bucket
                steps.append({"mode": m, "foreign": (k, f"foreign-{h}-{j % 3}", rng.random() < 0.5), "req": {"op": "ping"}})
            pm = rng.choice(modes) if mixed else pure
            for pk in rng.sample(keys, min(3, len(keys))):
                steps.extend(probes(pm, cache, [pk], with_read=rng.random() < 0.5))
        # foreign steps are performed by the harness between batches: split execution there
        model = run_with_foreign(ctx, steps, cache, f"r{h}")
        states.add(model.state_id())
        ctx.case(distinct_key=("r", model.state_id()),
                 sample={"kind": "random", "keys": keys, "steps": len(steps), "mixed": mixed} if h < 3 else None)
        ctx.count("max_records_per_bucket", 0)
        ctx.extra["max_records_per_bucket"] = max(ctx.extra.get("max_records_per_bucket", 0), max(maxrec.values() or [0]))
        ctx.rm(cache.rsplit("/", 1)[0])
    ctx.count("random_histories", nrand)
    # ---------------- long buckets: tens to hundreds of records on one key
    nlong = 6 if ctx.quick else 60
    for h in range(nlong):
        cache = ctx.new_cache()
        key = rng.choice(["long-history", "длинная история", "a/b"])
        nrec = rng.choice([26, 40, 70, 130] if ctx.quick else [26, 40, 70, 130, 300, 600])
        steps = []
        for j in range(nrec):
            m = modes[(h + j) % len(modes)] if h % 2 else modes[h % len(modes)]
            if rng.random() < 0.85:
                steps.append(write_step(ctx, m, cache, key, rng.randrange(len(SHAPES)), str(j).encode()))
            else:
                steps.append({"mode": m, "req": {"op": "remove", "cache": cache, "key": key}})
            if j % 9 == 0 or j >= nrec - 3:
                for pm in modes:
                    steps.extend(probes(pm, cache, [key]))
        model = run_history(ctx, "long-bucket", steps, f"L{h}")
        ctx.case(distinct_key=("L", nrec, h % 2), sample={"kind": "long-bucket", "records": nrec, "key": key})
        ctx.extra["max_records_per_bucket"] = max(ctx.extra.get("max_records_per_bucket", 0), nrec)
        ctx.rm(cache.rsplit("/", 1)[0])
    ctx.count("long_bucket_histories", nlong)
    ctx.extra["distinct_final_states_random"] = len(states)
    twin_caches(ctx, rng, modes)
    # a key that comes back, after a bulk removal, with a value of exactly the old one's shape (same bucket name and
    # byte length): the lookup must return the second writer's entry (workload shared with C11)
    from . import c11
    c11.same_shape_rewrites(ctx, rng, modes)


def twin_caches(ctx, rng, modes):
    """Two cache directories used alternately by the SAME processes, with the same keys and overlapping values: the
    answer for one directory must never depend on what was done in the other (anything remembered in the process
    has to be remembered per cache directory)."""
    nh = 60 if ctx.quick else 800
    for h in range(nh):
        base = ctx.new_dir(f"twin{h}")
        import os
        caches = [os.path.join(base, "cache-a"), os.path.join(base, "cache-b")]
        keys = ["k", "other", rng.choice(gen.HOSTILE_KEYS)]
        mixed = rng.random() < 0.5
        pure = rng.choice(modes)
        steps = []
        known = []
        for j in range(rng.randint(25, 60)):
            m = rng.choice(modes) if mixed else pure
            w = rng.randrange(2)
            k = rng.choice(keys)
            r = rng.random()
            if r < 0.45:
                st = write_step(ctx, m, caches[w], k, rng.randrange(len(SHAPES)), rng.choice([None, b"1", b"2"]))
                known.append(ref.sri("sha256", st["data"]))
            elif r < 0.6:
                st = {"mode": m, "req": {"op": "remove", "cache": caches[w], "key": k}}
            elif r < 0.7 and known:
                st = {"mode": m, "req": {"op": "remove_hash", "cache": caches[w], "sri": rng.choice(known)}}
            elif r < 0.75:
                st = {"mode": m, "req": {"op": "remove_fully", "cache": caches[w], "key": k}}
            else:
                st = None
            if st:
                st["which"] = w
                steps.append(st)
            # ask BOTH directories right away
            pm = rng.choice(modes) if mixed else pure
            for w2 in rng.sample([0, 1], 2):
                qs = probes(pm, caches[w2], [rng.choice(keys)], with_read=True)
                if known and rng.random() < 0.6:
                    a = rng.choice(known)
                    qs.append({"mode": pm, "req": {"op": "exists", "cache": caches[w2], "sri": a}, "probe": True})
                    qs.append({"mode": pm, "req": {"op": "read_hash", "cache": caches[w2], "sri": a}, "probe": True})
                if rng.random() < 0.15:
                    qs.append({"mode": "sync@astd", "req": {"op": "list", "cache": caches[w2]}, "probe": True})
                for q in qs:
                    q["which"] = w2
                steps.extend(qs)
        resps = hist.execute(ctx, steps)
        models = [Model(), Model()]
        for i, (st, r) in enumerate(zip(steps, resps)):
            probs, _obs = hist.judge(models[st["which"]], st, r)
            if st.get("probe"):
                ctx.count("lookups_compared")
            if probs:
                ctx.violation(f"twin-caches|{st['req']['op']}|{'mixed' if mixed else pure}|{'probe' if st.get('probe') else 'mutation'}",
                              f"two caches used alternately, history T{h} step {i} (cache-{'ab'[st['which']]}): {probs[0]}",
                              {"history": f"T{h}", "step": i, "problems": probs[:5],
                               "steps": [[x["mode"], x["req"]] for x in steps[:i + 1]]})
                break
        ctx.case(distinct_key=("twin", models[0].state_id(), models[1].state_id()),
                 sample={"kind": "twin caches", "steps": len(steps), "mixed": mixed} if h < 2 else None)
        ctx.rm(base)
    ctx.count("twin_cache_histories", nh)


def run_with_foreign(ctx, steps, cache, hid):
    """Like run_history, but 'foreign' steps are done by the harness itself, in order."""
    model = Model()
    seg = []
    allsteps = []

    def flush():
        nonlocal seg
        if not seg:
            return True
        resps = hist.execute(ctx, seg)
        for s, r in zip(seg, resps):
            allsteps.append(s)
            probs, _ = hist.judge(model, s, r)
            if s.get("probe"):
                ctx.count("lookups_compared")
            if probs:
                modeclass = "mixed" if len({x["mode"] for x in steps}) > 1 else steps[0]["mode"]
                ctx.violation(f"random|{s['req']['op']}|{modeclass}|{'probe' if s.get('probe') else 'mutation'}",
                              f"history {hid} step {len(allsteps) - 1}: {probs[0]}",
                              {"history": hid, "problems": probs[:5],
                               "steps": [[x["mode"], x["req"]] if not x.get("foreign") else ["foreign", x["foreign"]]
                                         for x in allsteps]})
                seg = []
                return False
        seg = []
        return True

    for s in steps:
        if s.get("foreign"):
            if not flush():
                return model
            bucket_key, fkey, removal = s["foreign"]
            js = ref.entry_json(fkey, None if removal else ref.sri("sha256", b"foreign"), 1 if not removal else 2 ** 70, 7 if not removal else 0)
            ref.append_record(cache, fkey, js, bucket_key=bucket_key)
            allsteps.append(s)
            ctx.count("foreign_records")
        else:
            seg.append(s)
    flush()
    return model
