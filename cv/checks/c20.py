"""C20 — no public call panics, aborts or hangs; every failure is a returned error.

Panic catcher (catch_unwind + hook in the driver), process-death detection and
a CPU-time based watchdog over: random programs over the whole op table,
the panic-prone writer option space, hostile on-disk states, hostile keys."""
import os

from .. import drv, ev, gen, ref, retr
from . import c12

MIB = gen.MIB


class TooManyHangs(Exception):
    pass


def judge(ctx, what, mode, req, r, state="normal"):
    ctx.count(f"calls[{req.get('op')}@{mode}]")
    if "hang" in r:
        ctx.counters["hangs_seen"] += 1
        if ctx.counters["hangs_seen"] > 6:
            raise TooManyHangs()
    op = req.get("op")
    name = op if op != "reader" else "reader"
    sig = None
    if "panic" in r:
        loc = ""
        hook = r["panic"].get("hook") or []
        if hook:
            loc = hook[0].rsplit("@", 1)[-1].strip()
        sig = f"{name}|{mode}|{state}|panic@{loc.replace('/repo/', '')}"
        msg = f"{name} in {mode} ({what}, state {state}) panicked: {str(r['panic'].get('msg'))[:200]}"
    elif "bg_panic" in r:
        sig = f"{name}|{mode}|{state}|background-panic"
        msg = f"{name} in {mode} ({what}): a background thread panicked: {str(r['bg_panic'])[:200]}"
    elif "died" in r:
        sig = f"{name}|{mode}|{state}|process-died"
        msg = f"{name} in {mode} ({what}): the process died: {str(r['died'])[:300]}"
    elif "hang" in r:
        if ev.is_hang(r):
            sig = f"{name}|{mode}|{state}|busy-hang"
            msg = f"{name} in {mode} ({what}) did not return and burnt {r['hang']['cpu_s']} s CPU"
        else:
            # zero-CPU stall: re-run up to 3 times
            stalls = 1
            for _ in range(2):
                rr = ctx.call(mode, req, timeout=20)
                if "hang" in rr:
                    stalls += 1
            if stalls >= 3:
                sig = f"{name}|{mode}|{state}|stall"
                msg = f"{name} in {mode} ({what}) stalled on three consecutive runs"
            else:
                ctx.inconc(f"one-off stall of {name} in {mode}: {r['hang']}")
    if sig:
        ctx.violation(sig, msg, {"steps": [[mode, req]], "state": state, "what": what, "response": r})
        return False
    if "data" in (r.get("ok") or {}):
        drv.data_bytes(r["ok"]["data"])
    return True


def all_ops(ctx, cache, key, sri, destdir, data=b"payload"):
    """One request per public operation (both API directions) for a cache in some hostile state."""
    reqs = [
        {"op": "metadata", "cache": cache, "key": key},
        {"op": "index_find", "cache": cache, "key": key},
        {"op": "read", "cache": cache, "key": key},
        {"op": "read_hash", "cache": cache, "sri": sri},
        {"op": "reader", "cache": cache, "key": key, "bufs": [100]},
        {"op": "reader", "cache": cache, "sri": sri, "bufs": [100]},
        {"op": "exists", "cache": cache, "sri": sri},
        {"op": "list", "cache": cache},
    ]
    for n in retr.CHECKED_EXTRACT + retr.UNCHECKED_EXTRACT:
        reqs.append(retr.request(n, cache, key, sri, os.path.join(destdir, n)))
    reqs += [
        {"op": "write", "cache": cache, "key": key, "data": ctx.data(data)},
        {"op": "write_hash", "cache": cache, "data": ctx.data(data)},
        {"op": "writer", "cache": cache, "key": key, "opts": {"size": len(data)}, "chunks": [ctx.data(data[:3]), ctx.data(data[3:])]},
        {"op": "writer", "cache": cache, "opts": {"size": len(data)}, "chunks": [ctx.data(data)]},
        {"op": "index_insert", "cache": cache, "key": key, "opts": {"sri": sri, "time": "1"}},
        {"op": "remove", "cache": cache, "key": key},
        {"op": "remove_hash", "cache": cache, "sri": sri},
        {"op": "remove_fully", "cache": cache, "key": key},
        {"op": "metadata", "cache": cache, "key": key},
        {"op": "list", "cache": cache},
    ]
    return reqs


HOSTILE_STATES = ["bucket-is-dir", "bucket-dangling-symlink", "bucket-empty-file", "bucket-nul-only",
                  "bucket-1MiB-line", "bucket-symlink-loop", "content-is-dir", "content-dangling-symlink",
                  "content-empty", "index-v5-is-file", "content-v2-is-file", "tmp-is-file", "tmp-is-dangling-symlink",
                  "stray-files-in-index", "stray-files-in-content", "cache-root-is-file", "cache-root-missing",
                  "index-dir-unreadable-name", "bucket-only-newlines", "bucket-huge-json-depth",
                  # directory symlinks that lead back up: a walk that follows links never ends (or trips a loop detector)
                  "index-link-to-itself", "index-shard-link-to-ancestor", "content-link-to-cache-root", "cache-root-link-inside"]


def make_state(state, cache, key, sri):
    """Prepare a hostile on-disk state around an otherwise valid entry."""
    data = b"payload"
    os.makedirs(cache, exist_ok=True)
    cp = ref.content_path_sri(cache, sri)
    bp = ref.bucket_path(cache, key)
    os.makedirs(os.path.dirname(cp), exist_ok=True)
    os.makedirs(os.path.dirname(bp), exist_ok=True)
    with open(cp, "wb") as f:
        f.write(data)
    rec = ref.record_bytes(ref.entry_json(key, sri, 5, len(data)))
    with open(bp, "wb") as f:
        f.write(rec)

    def replace(path, how):
        if os.path.isdir(path) and not os.path.islink(path):
            import shutil
            shutil.rmtree(path)
        elif os.path.lexists(path):
            os.unlink(path)
        how(path)

    if state == "index-link-to-itself":
        os.symlink(os.path.join(cache, "index-v5"), os.path.join(cache, "index-v5", "again"))
    elif state == "index-shard-link-to-ancestor":
        os.symlink("../..", os.path.join(os.path.dirname(bp), "up"))
    elif state == "content-link-to-cache-root":
        os.symlink(cache, os.path.join(cache, "content-v2", "sha256", "root"))
    elif state == "cache-root-link-inside":
        os.symlink(".", os.path.join(cache, "self"))
    elif state == "bucket-is-dir":
        replace(bp, os.makedirs)
    elif state == "bucket-dangling-symlink":
        replace(bp, lambda p: os.symlink("/nonexistent/target", p))
    elif state == "bucket-symlink-loop":
        replace(bp, lambda p: os.symlink(p, p))
    elif state == "bucket-empty-file":
        replace(bp, lambda p: open(p, "wb").close())
    elif state == "bucket-nul-only":
        replace(bp, lambda p: open(p, "wb").write(b"\x00" * 4096))
    elif state == "bucket-1MiB-line":
        replace(bp, lambda p: open(p, "wb").write(b"x" * MIB + rec))
    elif state == "bucket-only-newlines":
        replace(bp, lambda p: open(p, "wb").write(b"\n" * 10000 + rec))
    elif state == "bucket-huge-json-depth":
        js = "[" * 100000
        import hashlib
        line = b"\n" + hashlib.sha256(js.encode()).hexdigest().encode() + b"\t" + js.encode()
        replace(bp, lambda p: open(p, "wb").write(line + rec))
    elif state == "content-is-dir":
        replace(cp, os.makedirs)
    elif state == "content-dangling-symlink":
        replace(cp, lambda p: os.symlink("/nonexistent/target", p))
    elif state == "content-empty":
        replace(cp, lambda p: open(p, "wb").close())
    elif state == "index-v5-is-file":
        replace(os.path.join(cache, "index-v5"), lambda p: open(p, "wb").write(rec))
    elif state == "content-v2-is-file":
        replace(os.path.join(cache, "content-v2"), lambda p: open(p, "wb").write(b"x"))
    elif state == "tmp-is-file":
        replace(os.path.join(cache, "tmp"), lambda p: open(p, "wb").write(b"x"))
    elif state == "tmp-is-dangling-symlink":
        replace(os.path.join(cache, "tmp"), lambda p: os.symlink("/nonexistent/dir", p))
    elif state == "stray-files-in-index":
        for d in (os.path.join(cache, "index-v5"), os.path.dirname(os.path.dirname(bp)), os.path.dirname(bp)):
            open(os.path.join(d, "stray.txt"), "wb").write(b"stray\nfile\twith tab\n")
            os.makedirs(os.path.join(d, "straydir"), exist_ok=True)
    elif state == "stray-files-in-content":
        for d in (os.path.join(cache, "content-v2"), os.path.dirname(os.path.dirname(cp)), os.path.dirname(cp)):
            open(os.path.join(d, "stray.txt"), "wb").write(b"stray")
    elif state == "cache-root-is-file":
        replace(cache, lambda p: open(p, "wb").write(b"i am a file"))
    elif state == "cache-root-missing":
        import shutil
        shutil.rmtree(cache)
    elif state == "index-dir-unreadable-name":
        os.makedirs(os.path.join(cache, "index-v5", "zz", "\xff\xfe".encode("latin1").decode("latin1")), exist_ok=True)
        p = os.path.join(cache.encode(), b"index-v5", b"zz", b"\xff\xfe-not-utf8")
        with open(p, "wb") as f:
            f.write(rec)


def run(ctx):
    try:
        run_populations(ctx)
    except TooManyHangs:
        print("[C20] more than 6 calls hung: remaining workload skipped (each hang costs a full watchdog period)", flush=True)
        ctx.extra["stopped_early"] = "more than 6 hangs observed"


def run_populations(ctx):
    rng = ctx.rng
    modes = drv.QUICK_MODES if ctx.quick else drv.ALL_MODES
    ctx.rule = ("call populations: (a) random programs over the whole op table incl. content/index damage steps (the "
                "C12 generator), (b) the panic-prone writer option space (zero-length data, declared-size data in "
                "several chunks, more/fewer bytes than declared on both sides of 1 MiB, empty chunks, commit after "
                "close, double flush, abandoned writers), (c) every public operation against 20 hostile on-disk states "
                "(bucket/content path is a directory, dangling symlink, symlink loop, empty, NUL-only, 1 MiB line, "
                "100k-deep JSON; index-v5/content-v2/tmp/cache root is a regular file; stray files; non-UTF-8 file "
                "names; every kind of foreign index record as a key's newest record), (d) hostile keys incl. 64 KiB and NUL/control characters through every operation, (e) the linker option "
                "space (link_to through every entry point, declared sizes on both sides of the target's up to 2^64-1, "
                "partial reads, read_to_end, commit / drop). Oracle: "
                "no {panic}, no background-thread panic, no process death, no hang (>=10 s CPU or 3 reproducible "
                "stalls). distinct = (population, op, mode, state/key class)")
    ctx.assumptions = ["integrity arguments are well-formed", "FIFOs and device nodes are excluded (opening one blocks any program)"]
    # ---------------- (a) random programs
    nprog = 200 if ctx.quick else 2500
    for pi in range(nprog):
        prog = c12.gen_program(ctx, rng, rng.randint(10, 40))
        m = modes[pi % len(modes)]
        base = ctx.new_dir(f"p{pi}")
        cache, dest, target = os.path.join(base, "cache"), os.path.join(base, "dest"), os.path.join(base, "t.bin")
        os.makedirs(dest)
        open(target, "wb").write(next((s["target_data"] for s in prog if s["op"] == "link_to"), b""))
        i = 0
        while i < len(prog):
            st = prog[i]
            if st["op"].startswith("damage_"):
                c12.harness_step(st, cache, target, b"")
                i += 1
                continue
            mm = c12.route(st, m)
            j = i
            batch = []
            while j < len(prog) and not prog[j]["op"].startswith("damage_") and c12.route(prog[j], m) == mm:
                batch.append(c12.concrete(ctx, prog[j], cache, dest, target))
                j += 1
            for q, r in zip(batch, ctx.batch(mm, batch)):
                judge(ctx, "random program", mm, q, r, "program")
                ctx.case(distinct_key=("program", q["op"], mm, ev.variant(r)))
            i = j
        ctx.rm(base)
    # ---------------- (b) writer option space
    cache = ctx.new_cache()
    nw = 1500 if ctx.quick else 15000
    for i in range(nw):
        mode = modes[i % len(modes)]
        ln = rng.choice([0, 0, 1, 2, 100, 4096, 70000] + ([MIB - 1, MIB, MIB + 1] if i % 25 == 0 else []))
        data = gen.data(rng, ln)
        shape, lens = gen.chunking(rng, ln)
        dsz = rng.choice([None, ln, ln, max(0, ln - 1), ln + 1, 0, 2 * ln, MIB, MIB + 1, 1])
        if i % 6 == 5:
            # a declared size is an unchecked claim of the caller: it may be astronomically wrong
            dsz = rng.choice([2 ** 31 - 1, 2 ** 31, 2 ** 32, 2 ** 40, 2 ** 47, 2 ** 60, 2 ** 63 - 1, 2 ** 63, 2 ** 64 - 1])
        opts = {"algo": rng.choice(gen.ALGOS)}
        if dsz is not None:
            opts["size"] = dsz
        finals = ["commit", "commit", "drop", "flush_drop"] + (["close_commit", "close_drop", "busy_drop"] if mode.startswith("async") else [])
        req = {"op": "writer", "cache": cache, "opts": opts, "chunks": [ctx.data(c) for c in gen.split(data, lens)],
               "final": rng.choice(finals)}
        if rng.random() < 0.7:
            req["key"] = rng.choice(["w", "", "x/y"])
        if lens and rng.random() < 0.5:
            req["flush_after"] = [rng.randrange(len(lens)), rng.randrange(len(lens))]
        if req["final"] == "commit" and rng.random() < 0.15:
            # the cache changes under the open writer: cleared through the API, temp area removed by an outside
            # cleaner, the whole cache directory gone
            req["before_commit"] = [rng.choice([{"op": "clear", "cache": cache},
                                                {"op": "rmtree", "path": cache + "/tmp"},
                                                {"op": "rmtree", "path": cache},
                                                {"op": "rmtree", "path": cache + "/content-v2"}])]
        if mode.startswith("async") and lens and rng.random() < 0.2:
            # a write future dropped while pending (timeout / select!), the writer used further - also through write_all
            req["cancel_before"] = [[rng.randrange(len(lens)), ctx.data(gen.data(rng, rng.choice([1, 100, 5000, 200000])))]
                                    for _ in range(rng.choice([1, 2]))]
            req["use_write_all"] = rng.random() < 0.7
        if lens and rng.random() < 0.15:
            req["vectored"] = True
        r = ctx.call(mode, req, timeout=30)
        cls = ("before_commit" in req, "cancel_before" in req, "vectored" in req, "len0" if ln == 0 else "small" if ln <= MIB else "big",
               "undeclared" if dsz is None else "exact" if dsz == ln else "less" if dsz < ln else "more" if dsz < 2 ** 31 - 1 else "astronomic",
               "chunks%d" % min(len(lens), 2), req["final"])
        judge(ctx, f"writer len={ln} declared={dsz} chunks={lens[:6]} final={req['final']}", mode, req, r, "writer-options")
        ctx.case(distinct_key=("writer", mode) + cls,
                 sample={"population": "writer options", "mode": mode, "len": ln, "declared": dsz, "chunks": lens[:8],
                         "final": req["final"], "result": ev.variant(r)} if i % 60 == 0 else None)
    # ---------------- (c) hostile on-disk states
    states = HOSTILE_STATES if not ctx.quick else HOSTILE_STATES
    for si, state in enumerate(states):
        for mode in modes:
            base = ctx.new_dir(f"h{si}-{mode.replace('@', '-')}")
            cache = os.path.join(base, "cache")
            dest = os.path.join(base, "dest")
            os.makedirs(dest)
            key = "hostile-key"
            sri = ref.sri("sha256", b"payload")
            try:
                make_state(state, cache, key, sri)
            except OSError as e:
                ctx.inconc(f"could not build hostile state {state}: {e}")
                continue
            reqs = all_ops(ctx, cache, key, sri, dest)
            for q in reqs:
                mm = "sync@" + mode.split("@")[1] if q["op"] in c12.SYNC_ONLY_OPS and mode.startswith("async") else mode
                r = ctx.call(mm, q, timeout=20)
                judge(ctx, f"hostile state {state}", mm, q, r, state)
                ctx.case(distinct_key=("state", state, q["op"], mm),
                         sample={"population": "hostile state", "state": state, "op": q["op"], "mode": mm,
                                 "result": ev.variant(r)} if q["op"] == "metadata" and mode == modes[0] else None)
            # clear must also cope
            r = ctx.call(mode, {"op": "clear", "cache": cache})
            judge(ctx, f"hostile state {state}", mode, {"op": "clear", "cache": cache}, r, state)
            ctx.rm(base)
        ctx.count("hostile_states")
    # ---------------- (c2) every kind of foreign record (correct line checksum, content another tool might write) as
    # the newest record of a key, through every operation
    for fk in c12.FOREIGN_RECORDS:
        for mode in modes:
            base = ctx.new_dir(f"f-{fk}-{mode.replace('@', '-')}")
            cache = os.path.join(base, "cache")
            dest = os.path.join(base, "dest")
            os.makedirs(dest)
            key = "foreign-key"
            w = ctx.call("sync@astd", {"op": "write", "cache": cache, "key": key, "data": ctx.data(b"foreign payload")})
            with open(ref.bucket_path(cache, key), "ab") as f:
                f.write(c12.foreign_record(fk, key))
            sri = ref.sri("sha256", b"foreign payload")
            for q in all_ops(ctx, cache, key, sri, dest, data=b"foreign payload") + [{"op": "clear", "cache": cache}]:
                mm = "sync@" + mode.split("@")[1] if q["op"] in c12.SYNC_ONLY_OPS and mode.startswith("async") else mode
                r = ctx.call(mm, q, timeout=20)
                judge(ctx, f"foreign record {fk}", mm, q, r, fk)
                ctx.case(distinct_key=("foreign", fk, q["op"], mm))
            ctx.rm(base)
        ctx.count("foreign_record_states")
    # ---------------- (d) hostile keys through every operation
    cache = ctx.new_cache()
    dest = ctx.new_dir("kdest")
    hk = gen.HOSTILE_KEYS + ["k" * 65536, "\x00" * 100, "\n" * 50, "é" * 30000]
    if ctx.quick:
        hk = rng.sample(gen.HOSTILE_KEYS, 12) + ["k" * 65536, "\x00" * 100]
    for ki, key in enumerate(hk):
        mode = modes[ki % len(modes)]
        data = b"d" * (ki % 5)
        sri = ref.sri("sha256", data)
        reqs = [{"op": "write", "cache": cache, "key": key, "data": ctx.data(data)}] + all_ops(ctx, cache, key, sri, os.path.join(dest, f"k{ki}"))
        os.makedirs(os.path.join(dest, f"k{ki}"), exist_ok=True)
        for q in reqs:
            mm = "sync@" + mode.split("@")[1] if q["op"] in c12.SYNC_ONLY_OPS and mode.startswith("async") else mode
            r = ctx.call(mm, q, timeout=30)
            judge(ctx, f"hostile key #{ki} (len {len(key)})", mm, q, r, "hostile-key")
            ctx.case(distinct_key=("key", ki, q["op"], mm))
    # ---------------- (d2) long keys whose multi-byte characters straddle EVERY byte offset, on entries that are ABSENT
    # (every by-key call then takes its failure path, which formats or stores the key), then written, then removed
    # again; and through writers whose commit is refused. 'a'*i + c*n puts a character of width w across every offset
    # that is not congruent to i modulo w, so the w keys of one character leave no offset uncovered.
    cache = ctx.new_cache()
    dest = ctx.new_dir("bdest")
    bkeys = [("a" * i) + ch * 130 for ch in ("\u00e9", "\u4e2d", "\U0001F600") for i in range(len(ch.encode()))]
    for ki, key in enumerate(bkeys):
        for mode in modes:
            data = b"boundary"
            sri = ref.sri("sha256", data)
            ddir = os.path.join(dest, f"b{ki}-{mode.replace('@', '-')}")
            os.makedirs(ddir, exist_ok=True)
            reqs = all_ops(ctx, cache, key, sri, ddir, data)
            reqs += [{"op": "writer", "cache": cache, "key": key, "opts": {"size": len(data) + 1}, "chunks": [ctx.data(data)]},
                     {"op": "writer", "cache": cache, "key": key, "opts": {"sri": ref.sri("sha256", b"other")}, "chunks": [ctx.data(data)]},
                     {"op": "read", "cache": cache, "key": key}, {"op": "reader", "cache": cache, "key": key, "bufs": [7]},
                     {"op": "copy", "cache": cache, "key": key, "to": os.path.join(ddir, "again")}]
            for q in reqs:
                mm = "sync@" + mode.split("@")[1] if q["op"] in c12.SYNC_ONLY_OPS and mode.startswith("async") else mode
                r = ctx.call(mm, q, timeout=30)
                judge(ctx, f"boundary key #{ki} ({len(key.encode())} bytes, {len(key[-1].encode())}-byte characters from offset {ki % 4})",
                      mm, q, r, "boundary-key")
                ctx.case(distinct_key=("boundary-key", ki, q["op"], mm))
            ctx.count("boundary_key_programs")
    # ---------------- (e) linker option space (link_to): declared sizes on both sides of the target's, partial reads,
    # read_to_end, a target that shrinks or vanishes between open and commit
    base = ctx.new_dir("linkers")
    nl = 240 if ctx.quick else 3000
    for i in range(nl):
        mode = modes[i % len(modes)]
        cache = os.path.join(base, f"c{i % 7}")
        ln = rng.choice([0, 1, 11, 5000, 16384, 20000])
        tpath = os.path.join(base, f"target-{i}.bin")
        with open(tpath, "wb") as f:
            f.write(gen.data(rng, ln))
        via = rng.choice(["fn", "open", "opts", "opts", "opts"])
        req = {"op": "linker", "cache": cache, "target": tpath, "via": via}
        if rng.random() < 0.7:
            req["key"] = f"l{i % 5}"
        dsz = None
        if via == "opts":
            dsz = rng.choice([None, ln, ln + 1, ln + 20, max(0, ln - 1), 0, 2 * ln + 1, 2 ** 40, 2 ** 64 - 1])
            opts = {}
            if dsz is not None:
                opts["size"] = dsz
            if rng.random() < 0.3:
                opts["sri"] = ref.sri("sha256", b"something else")
            req["opts"] = opts
        if via != "fn":
            req["reads"] = rng.choice([[], [0], [1], [ln], [ln + 5], [3, 0, 7]])
            if rng.random() < 0.3:
                req["then_to_end"] = True
            req["final"] = rng.choice(["commit", "commit", "commit", "drop"])
        r = ctx.call(mode, req, timeout=20)
        cls = ("linker", mode, via, "undeclared" if dsz is None else "exact" if dsz == ln else "less" if dsz < ln else "more",
               "len0" if ln == 0 else "data", bool(req.get("then_to_end")), req.get("final", "commit"))
        judge(ctx, f"linker via={via} target={ln} bytes declared={dsz} reads={req.get('reads')} final={req.get('final')}", mode, req, r,
              "linker-options")
        ctx.case(distinct_key=cls, sample={"population": "linker options", "mode": mode, "via": via, "target_len": ln,
                                           "declared": dsz, "result": ev.variant(r)} if i % 60 == 0 else None)
        os.unlink(tpath)
    ctx.rm(base)
    ctx.extra["hostile_states"] = states
    ctx.extra["modes"] = modes
    if not ctx.quick:
        from .. import san
        work = ctx.new_dir("san")
        n = 0
        for v in ("astd", "tok"):
            n += san.asan(ctx, v, lambda c: san.writer_script(rng, c, 600, 300000), work, f"programs-{v}")
        n += san.memcheck(ctx, "tok", lambda c: san.writer_script(rng, c, 250, MIB), work, "programs-mmap")
        for shard in range(2):
            n += san.miri(ctx, "miri-tok", lambda c: san.writer_script(rng, c, 25, 3000), work, f"programs-miri{shard}")
        ctx.extra["sanitizer_replay_ops"] = n
