"""C07 — concurrent, lock-free use by several processes behaves like some serial order.

(1) controlled schedules of 2-3 overlapping one-shot processes (ptrace
    supervisor; exhaustive DFS on warm caches in sync mode, seeded random
    schedules on cold caches and in the async modes),
(2) free-running multi-process / multi-thread stress with unique values and a
    per-object linearizability check,
(3) ThreadSanitizer on the in-process part (thorough)."""
import itertools
import json
import os
import re
import subprocess
import time

from .. import build, crash, drv, ev, gen, hist, lin, ref, sysm
from ..model import Model

NOSCHED = "mkdir,mkdirat,fstat"


# ------------------------------------------------------------------ (1) schedules

def W(ctx, key, data, t, big=False):
    opts = {"time": str(t)}
    if big:
        # a record well above any 4/8 KiB buffering layer
        opts["metadata"] = {"pad": chr(97 + t % 26) * 12000}
        opts["raw_metadata"] = (bytes([t % 256]) * 1500).hex()
    return {"op": "writer", "cache": "<C>", "key": key, "opts": opts, "chunks": [ctx.data(data)]}


def pair_types(ctx):
    A, B, OLD = b"value A", b"value B (longer)", b"old value"
    sA, sOLD = ref.sri("sha256", A), ref.sri("sha256", OLD)
    prep_old = [W(ctx, "k", OLD, 1), W(ctx, "other", b"unrelated", 2)]
    prep_warm = [W(ctx, "other", b"unrelated", 2), W(ctx, "zz", A + b"-warm", 3), {"op": "remove", "cache": "<C>", "key": "k"}]
    T = []

    def P(name, prep, ops, keys, sris, exhaustive=True):
        T.append({"name": name, "prep": prep, "ops": ops, "keys": keys, "sris": sris, "exhaustive": exhaustive})

    P("W(k,A)||W(k,B)", prep_warm, [W(ctx, "k", A, 10), W(ctx, "k", B, 11)], ["k"], [sA, ref.sri("sha256", B)])
    P("Wbig(k,A)||Wbig(k,B)", prep_warm, [W(ctx, "k", A, 10, big=True), W(ctx, "k", B, 11, big=True)], ["k"], [sA, ref.sri("sha256", B)])
    P("Wbig(k,A)||remove(k)", prep_old, [W(ctx, "k", A, 10, big=True), {"op": "remove", "cache": "<C>", "key": "k"}], ["k"], [sA, sOLD])
    P("W(k,A)||W(k,A)", prep_warm, [W(ctx, "k", A, 10), W(ctx, "k", A, 11)], ["k"], [sA])
    P("W(k1,A)||W(k2,A)", prep_warm + [{"op": "remove", "cache": "<C>", "key": "k2"}],
      [W(ctx, "k", A, 10), W(ctx, "k2", A, 11)], ["k", "k2"], [sA])
    P("W(k,A)||remove(k)", prep_old, [W(ctx, "k", A, 10), {"op": "remove", "cache": "<C>", "key": "k"}], ["k"], [sA, sOLD])
    P("W(k,A)||remove_hash(A)", prep_warm, [W(ctx, "k", A, 10), {"op": "remove_hash", "cache": "<C>", "sri": sA}], ["k"], [sA])
    P("W(k,A)||metadata(k)", prep_old, [W(ctx, "k", A, 10), {"op": "metadata", "cache": "<C>", "key": "k"}], ["k"], [sA, sOLD])
    P("W(k,A)||read(k)", prep_old, [W(ctx, "k", A, 10), {"op": "read", "cache": "<C>", "key": "k"}], ["k"], [sA, sOLD])
    P("W(k,A)||read_hash(A)-cold-address", prep_warm, [W(ctx, "k", A, 10), {"op": "read_hash", "cache": "<C>", "sri": sA}], ["k"], [sA])
    P("W(k,A)||read_hash(A)-present", prep_warm + [{"op": "write_hash", "cache": "<C>", "data": ctx.data(A)}],
      [W(ctx, "k", A, 10), {"op": "read_hash", "cache": "<C>", "sri": sA}], ["k"], [sA])
    P("W(k,A)||exists(A)", prep_warm, [W(ctx, "k", A, 10), {"op": "exists", "cache": "<C>", "sri": sA}], ["k"], [sA])
    P("remove(k)||read(k)", prep_old, [{"op": "remove", "cache": "<C>", "key": "k"}, {"op": "read", "cache": "<C>", "key": "k"}], ["k"], [sOLD])
    P("remove(k)||remove(k)", prep_old, [{"op": "remove", "cache": "<C>", "key": "k"}, {"op": "remove", "cache": "<C>", "key": "k"}], ["k"], [sOLD])
    P("remove_hash||read(k)", prep_old, [{"op": "remove_hash", "cache": "<C>", "sri": sOLD}, {"op": "read", "cache": "<C>", "key": "k"}], ["k"], [sOLD])
    P("write_hash(A)||write_hash(A)", prep_warm, [{"op": "write_hash", "cache": "<C>", "data": ctx.data(A)},
                                                  {"op": "write_hash", "cache": "<C>", "data": ctx.data(A)}], [], [sA])
    P("W(k2,OLD)||read(k)-shared-content", prep_old, [W(ctx, "k2", OLD, 10), {"op": "read", "cache": "<C>", "key": "k"}], ["k", "k2"], [sOLD])
    P("write_hash(OLD)||read_hash(OLD)-present", prep_old, [{"op": "write_hash", "cache": "<C>", "data": ctx.data(OLD)},
                                                            {"op": "read_hash", "cache": "<C>", "sri": sOLD}], ["k"], [sOLD])
    # a writer whose commit has to be refused (wrong declared size), racing a good writer of the same, not yet stored bytes
    bad = W(ctx, "k", A, 10)
    bad["opts"] = dict(bad["opts"], size=len(A) + 1)
    P("Wrefused(k,A)||W(k2,A)", prep_warm + [{"op": "remove", "cache": "<C>", "key": "k2"}],
      [bad, W(ctx, "k2", A, 11)], ["k", "k2"], [sA])
    # the key's bucket holds bytes but not one usable record (here: records whose integrity addresses nothing)
    junk = [{"op": "index_insert", "cache": "<C>", "key": "k", "opts": {"sri": "sha256-AA", "time": "5", "size": 1}},
            {"op": "index_insert", "cache": "<C>", "key": "k", "opts": {"sri": "sha1-", "time": "6", "size": 1}}]
    prep_nok = [q for q in prep_warm if not (q["op"] == "remove" and q.get("key") == "k")]     # no tombstone of k either
    P("W(k,A)||metadata(k)-junk-only-bucket", prep_nok + junk, [W(ctx, "k", A, 10), {"op": "metadata", "cache": "<C>", "key": "k"}], ["k"], [sA])
    P("W(k,A)||list-junk-only-bucket", prep_nok + junk, [W(ctx, "k", A, 10), {"op": "list", "cache": "<C>"}], ["k"], [sA], exhaustive=False)
    long_hist = [W(ctx, "k", b"gen-%d" % g, 100 + g) for g in range(24)] + prep_old
    P("W(k,A)||metadata(k)-after-25-records", long_hist, [W(ctx, "k", A, 10), {"op": "metadata", "cache": "<C>", "key": "k"}], ["k"], [sA, sOLD])
    P("W(k,A)||W(k,B)-after-25-records", long_hist, [W(ctx, "k", A, 10), W(ctx, "k", B, 11)], ["k"], [sA, ref.sri("sha256", B)])
    P("W(k,A)||list", prep_old, [W(ctx, "k", A, 10), {"op": "list", "cache": "<C>"}], ["k"], [sA, sOLD])
    # triples
    P("W(k,A)||W(k,B)||W(k,C)", prep_warm, [W(ctx, "k", A, 10), W(ctx, "k", B, 11), W(ctx, "k", b"value C!", 12)], ["k"],
      [sA, ref.sri("sha256", B), ref.sri("sha256", b"value C!")])
    P("W(k,A)||remove(k)||metadata(k)", prep_old, [W(ctx, "k", A, 10), {"op": "remove", "cache": "<C>", "key": "k"},
                                                   {"op": "metadata", "cache": "<C>", "key": "k"}], ["k"], [sA, sOLD])
    return T


def data_of(ctx, req):
    """Bytes a write request carries (needed by the model)."""
    def dec(d):
        if "hex" in d:
            return bytes.fromhex(d["hex"])
        return open(d["file"], "rb").read()
    if req["op"] == "writer":
        return b"".join(dec(c) for c in req["chunks"])
    if req["op"] in ("write", "write_hash"):
        return dec(req["data"])
    return None


def model_after_prep(ctx, prep):
    m = Model()
    for q in prep:
        if q["op"] == "index_insert":
            continue        # only used for records no reader accepts: no effect on the model
        step = {"req": q, "data": data_of(ctx, q)}
        fake = {"ok": {"sri": ref.sri("sha256", step["data"])}} if step["data"] is not None else {"ok": {}}
        fake["w0"], fake["w1"] = "0", "0"
        hist.judge(m, step, fake)
    return m


def serial_orders(ctx, pt, cache_ph, resps, finals, final_reqs):
    """All permutations of the operations for which the sequential model
    reproduces every observed result AND the observed final state."""
    good = []
    base = model_after_prep(ctx, pt["prep"])
    n = len(pt["ops"])
    for perm in itertools.permutations(range(n)):
        m = base.clone()
        ok = True
        for i in perm:
            step = {"req": pt["ops"][i], "data": data_of(ctx, pt["ops"][i])}
            probs, _ = hist.judge(m, step, resps[i])
            if probs:
                ok = False
                break
        if not ok:
            continue
        for q, r in zip(final_reqs, finals):
            probs, _ = hist.judge(m, {"req": q}, r)
            if probs:
                ok = False
                break
        if ok:
            good.append(perm)
    return good


def final_probe_reqs(cache, pt):
    reqs = []
    for k in pt["keys"] + ["other"]:
        reqs.append({"op": "metadata", "cache": cache, "key": k})
        reqs.append({"op": "read", "cache": cache, "key": k})
    for s in pt["sris"]:
        reqs.append({"op": "exists", "cache": cache, "sri": s})
        reqs.append({"op": "read_hash", "cache": cache, "sri": s})
    reqs.append({"op": "list", "cache": cache})
    return reqs


def structural(cache, expected_records):
    """Every bucket a clean concatenation of valid records; counts add up; content matches addresses."""
    probs = list(ref.check_content_tree(cache))
    total = 0
    idx = os.path.join(cache, "index-v5")
    if os.path.isdir(idx):
        for dp, _dn, fn in os.walk(idx):
            for f in fn:
                raw = open(os.path.join(dp, f), "rb").read()
                recs, gp = ref.check_bucket_grammar(raw)
                total += len(recs)
                if gp:
                    probs.append(f"bucket {f[:8]}..: {gp[0]}")
    if expected_records is not None and total != expected_records:
        probs.append(f"{total} index records on disk, {expected_records} appends were acknowledged")
    return probs


def run_schedule(ctx, pt, mode, tdir, work, prefix, tail, cold=False, nosched_dirs=True, tag=""):
    rdir = os.path.join(work, f"s-{tag}-{os.getpid()}-{time.time_ns()}")
    if cold:
        os.makedirs(rdir)
        cache = os.path.join(rdir, "cache")
    else:
        cache = crash.instantiate(tdir, rdir)
    variant, m = drv.MODES[mode]
    cmds = [sysm.oneshot(variant, crash.subst(q, cache), m if q["op"] != "list" else "sync") for q in pt["ops"]]
    res = sysm.run(cmds, [cache], work, sched=prefix, tail=tail, nosched=NOSCHED, nosched_dirs=nosched_dirs, timeout=60)
    return rdir, cache, res


def judge_schedule(ctx, pt, mode, rdir, cache, res, kind, cold):
    """Returns the executed schedule (tuple of process indices) or None."""
    n = len(pt["ops"])
    if res.timed_out:
        ctx.inconc(f"schedule run of {pt['name']} in {mode} hit the supervisor watchdog")
        return None
    resps = []
    for i in range(n):
        rs = res.responses(i)
        if not rs:
            ctx.violation(f"{pt['name']}|{mode}|{kind}|process-died", f"operation {i} of {pt['name']} produced no result "
                          f"(exit {res.final and res.final['exit']})", {"pair": pt["name"], "mode": mode})
            return None
        resps.append(rs[0])
    sched = tuple(d["chosen"] for d in res.decisions)
    order = tuple(e["proc"] for e in res.events if e.get("sched") and "name" in e)
    freqs = final_probe_reqs(cache, pt)
    finals = ctx.batch("sync@astd", freqs)
    prep = [] if cold else pt["prep"]
    ptx = dict(pt, prep=prep)
    good = serial_orders(ctx, ptx, cache, resps, finals, freqs)
    acked = sum(1 for q, r in zip(pt["ops"], resps) if q["op"] in ("writer", "write", "remove") and q.get("key") is not None and ev.is_ok(r))
    acked += sum(1 for q in prep if q["op"] in ("writer", "write", "remove", "index_insert") and q.get("key") is not None)
    sprobs = structural(cache, acked)
    det = {"pair": pt["name"], "mode": mode, "schedule": list(sched), "interleaving": list(order), "cold": cold,
           "results": [ev.brief(r) for r in resps], "sysmon_argv": res.argv[:16],
           "steps": [["sync@astd", q] for q in prep] + [[mode, q] for q in pt["ops"]],
           "final": [ev.brief(r) for r in finals]}
    for r in resps:
        if ev.is_panic(r):
            ctx.violation(f"{pt['name']}|{mode}|{kind}|panic", f"{pt['name']}: an operation panicked under schedule {list(sched)}: {ev.brief(r)}", det)
            return sched
    if not good:
        ctx.violation(f"{pt['name']}|{mode}|{kind}|not-serializable",
                      f"{pt['name']} in {mode} under schedule {list(sched)[:30]}: results {[ev.brief(r)[:60] for r in resps]} and the "
                      f"final state are not those of any sequential order of the operations", det)
    else:
        ctx.count("serial_orders_found", len(good))
    if sprobs:
        ctx.violation(f"{pt['name']}|{mode}|{kind}|structure", f"{pt['name']} under schedule {list(sched)[:30]}: {sprobs[0]}", det)
    ctx.count("decisions_with_2plus_enabled", sum(1 for d in res.decisions if len(d["enabled"]) >= 2))
    return sched, order


def explore_exhaustive(ctx, pt, mode, work, cap):
    tdir = os.path.join(work, "t-" + re.sub(r"\W", "_", pt["name"]) + "-" + mode.replace("@", "-"))
    os.makedirs(tdir)
    sc = crash.Scenario(pt["name"], mode, None, pt["prep"])
    crash.build_template(ctx, sc, tdir)
    stack = [[]]
    done = 0
    interleavings = set()
    while stack and done < cap:
        wave = [stack.pop() for _ in range(min(14, len(stack), cap - done))]

        def one(prefix):
            return prefix, run_schedule(ctx, pt, mode, tdir, work, prefix, "first", tag="x")

        for prefix, (rdir, cache, res) in crash.pmap(one, wave):
            out = judge_schedule(ctx, pt, mode, rdir, cache, res, "exhaustive", False)
            ctx.rm(rdir)
            done += 1
            if out is None:
                continue
            sched, order = out
            interleavings.add(order)
            ctx.case(distinct_key=(pt["name"], mode, order),
                     sample={"pair": pt["name"], "mode": mode, "schedule": list(sched), "interleaving_of_sched_points": list(order)}
                     if done % 97 == 1 else None)
            decs = res.decisions
            for i in range(len(prefix), len(decs)):
                for alt in decs[i]["enabled"]:
                    if alt != decs[i]["chosen"]:
                        stack.append(list(sched[:i]) + [alt])
    ctx.rm(tdir)
    complete = not stack
    return done, len(interleavings), complete


def explore_random(ctx, pt, mode, work, n, cold, seedbase):
    tdir = os.path.join(work, "t-" + re.sub(r"\W", "_", pt["name"]) + "-" + mode.replace("@", "-") + ("-cold" if cold else ""))
    os.makedirs(tdir)
    if not cold:
        crash.build_template(ctx, crash.Scenario(pt["name"], mode, None, pt["prep"]), tdir)
    rng = ctx.rng
    jobs = []
    for i in range(n):
        # PCT-flavoured: a random prefix that favours one process for a stretch, then random tail
        k = len(pt["ops"])
        prefix = []
        if rng.random() < 0.5:
            for _ in range(rng.randint(1, 3)):
                prefix += [rng.randrange(k)] * rng.randint(1, 12)
        jobs.append((prefix, f"rand:{seedbase + i}"))

    def one(job):
        prefix, tail = job
        return run_schedule(ctx, pt, mode, tdir, work, prefix, tail, cold=cold, nosched_dirs=not cold, tag="r")

    inter = set()
    for (rdir, cache, res) in crash.pmap(one, jobs):
        out = judge_schedule(ctx, pt, mode, rdir, cache, res, "random-cold" if cold else "random", cold)
        ctx.rm(rdir)
        if out is None:
            continue
        sched, order = out
        inter.add(order)
        ctx.case(distinct_key=(pt["name"], mode, cold, order))
    ctx.rm(tdir)
    return len(inter)


# ------------------------------------------------------------------ (2) stress

def stress_round(ctx, rnd, nproc, per_prog, modes):
    """Free-running processes x threads/tasks on few keys/addresses; unique values."""
    rng = ctx.rng
    base = ctx.new_dir(f"stress{rnd}")
    cache = os.path.join(base, "cache")
    keys = ["hot-1", "hot-2", "hot/3"][:rng.randint(2, 3)]
    addr_datas = [f"addr-data-{rnd}-{i}".encode() for i in range(rng.randint(2, 3))]
    addr_sris = [ref.sri("sha256", d) for d in addr_datas]
    procs = []
    val_id = {}
    uniq = [0]

    def program(pid, tid):
        prog = []
        for j in range(per_prog):
            r = rng.random()
            k = rng.choice(keys)
            if r < 0.3:
                uniq[0] += 1
                data = f"v-{rnd}-{pid}-{tid}-{uniq[0]}".encode() * rng.randint(1, 40)
                val_id[ref.sri("sha256", data)] = data
                rr = rng.random()
                if rr < 0.4:
                    prog.append({"op": "write", "cache": cache, "key": k, "data": {"hex": data.hex()}})
                elif rr < 0.8:
                    prog.append({"op": "writer", "cache": cache, "key": k, "opts": {"metadata": {"p": pid}},
                                 "chunks": [{"hex": data[:7].hex()}, {"hex": data[7:].hex()}]})
                else:
                    # a record larger than common buffer sizes (4/8/64 KiB layers must not split the append)
                    prog.append({"op": "writer", "cache": cache, "key": k,
                                 "opts": {"metadata": {"p": pid, "pad": "m" * rng.choice([5000, 9000, 70000])},
                                          "raw_metadata": (bytes([pid % 256]) * rng.choice([10, 3000])).hex()},
                                 "chunks": [{"hex": data.hex()}]})
            elif r < 0.4:
                prog.append({"op": "remove", "cache": cache, "key": k})
            elif r < 0.6:
                prog.append({"op": "read", "cache": cache, "key": k})
            elif r < 0.7:
                prog.append({"op": "metadata", "cache": cache, "key": k})
            elif r < 0.78:
                i = rng.randrange(len(addr_datas))
                prog.append({"op": "write_hash", "cache": cache, "data": {"hex": addr_datas[i].hex()}})
            elif r < 0.84:
                prog.append({"op": "remove_hash", "cache": cache, "sri": rng.choice(addr_sris)})
            elif r < 0.92:
                prog.append({"op": "read_hash", "cache": cache, "sri": rng.choice(addr_sris)})
            else:
                prog.append({"op": "exists", "cache": cache, "sri": rng.choice(addr_sris)})
        return prog

    scripts = []
    for p in range(nproc):
        mode = modes[p % len(modes)]
        variant, m = drv.MODES[mode]
        nthreads = rng.randint(2, 4)
        req = {"op": "parallel", "mode": m, "programs": [program(p, t) for t in range(nthreads)]}
        for pr in req["programs"]:
            for q in pr:
                q["mode"] = m
        scripts.append((variant, req, mode))
    # start all processes, then release them together through a FIFO-less barrier: they simply start at once
    handles = []
    for i, (variant, req, mode) in enumerate(scripts):
        sp = os.path.join(base, f"script{i}.jsonl")
        with open(sp, "w") as f:
            f.write(json.dumps(req) + "\n")
        op = os.path.join(base, f"out{i}.jsonl")
        handles.append((subprocess.Popen([build.ensure(variant), "run", sp, op], stdout=subprocess.DEVNULL,
                                         stderr=subprocess.DEVNULL, env=dict(os.environ, CV_OUT_DIR=base)), op, req, mode))
    ops = []
    for (p, op, req, mode) in handles:
        try:
            p.wait(timeout=120)
        except subprocess.TimeoutExpired:
            p.kill()
            ctx.inconc("stress process timed out")
            continue
        try:
            resp = json.loads(open(op).read().splitlines()[0])
        except Exception:
            ctx.violation(f"stress|{mode}|process-died", f"a stress process in {mode} died (rc={p.returncode})", {})
            continue
        if not ev.is_ok(resp):
            ctx.violation(f"stress|{mode}|parallel-{ev.variant(resp)}", f"parallel request failed: {ev.brief(resp)}", {})
            continue
        for prog, results in zip(req["programs"], resp["ok"]["results"]):
            if not isinstance(results, list):
                ctx.violation(f"stress|{mode}|thread-died", f"a stress thread died: {results}", {})
                continue
            for q, r in zip(prog, results):
                ops.append((q, r, mode))
    # ---- per-object histories
    by_key = {k: [] for k in keys}
    by_addr = {s: [] for s in addr_sris}
    acked = {k: 0 for k in keys}
    for q, r, mode in ops:
        ctx.count(f"stress_ops[{q['op']}]")
        if ev.is_panic(r):
            ctx.violation(f"stress|{mode}|{q['op']}|panic", f"stress: {q['op']} panicked: {ev.brief(r)}", {"steps": [[mode, q]]})
            continue
        o = {"call": r["t0"], "ret": r["t1"], "q": q, "r": r, "mode": mode}
        op = q["op"]
        if op in ("write", "writer"):
            if not ev.is_ok(r):
                ctx.violation(f"stress|{mode}|{op}|{ev.variant(r)}", f"stress: a concurrent write failed: {ev.brief(r)}", {"steps": [[mode, q]]})
                continue
            o.update(kind="write", v=r["ok"]["sri"])
            acked[q["key"]] += 1
            by_key[q["key"]].append(o)
        elif op == "remove":
            if not ev.is_ok(r):
                ctx.violation(f"stress|{mode}|remove|{ev.variant(r)}", f"stress: remove failed: {ev.brief(r)}", {"steps": [[mode, q]]})
                continue
            o.update(kind="remove")
            acked[q["key"]] += 1
            by_key[q["key"]].append(o)
        elif op == "read":
            if ev.is_ok(r):
                data = drv.data_bytes(r["ok"]["data"])
                s = ref.sri("sha256", data)
                if s not in val_id:
                    ctx.violation(f"stress|{mode}|read|never-written-bytes",
                                  f"stress: read({q['key']!r}) returned {len(data)} bytes that no writer ever wrote "
                                  f"(partial or spliced content)", {"steps": [[mode, q]], "got_hex": data[:200].hex()})
                    continue
                o.update(kind="read", res=s)
            elif ev.variant(r) == "EntryNotFound":
                o.update(kind="read", res=None)
            else:
                ctx.violation(f"stress|{mode}|read|{ev.variant(r)}", f"stress: read({q['key']!r}) gave {ev.brief(r)} although no "
                              f"content is ever removed from keyed addresses", {"steps": [[mode, q]]})
                continue
            by_key[q["key"]].append(o)
        elif op == "metadata":
            if not ev.is_ok(r):
                ctx.violation(f"stress|{mode}|metadata|{ev.variant(r)}", f"stress: metadata failed: {ev.brief(r)}", {"steps": [[mode, q]]})
                continue
            e = r["ok"]["entry"]
            if e is not None and e["integrity"] not in val_id:
                ctx.violation(f"stress|{mode}|metadata|phantom", f"stress: metadata returned an entry nobody wrote: {str(e)[:200]}", {})
                continue
            if e is not None and e["size"] != len(val_id[e["integrity"]]):
                ctx.violation(f"stress|{mode}|metadata|spliced-entry", f"stress: entry fields from different writes: {str(e)[:200]}", {})
                continue
            o.update(kind="read", res=None if e is None else e["integrity"])
            by_key[q["key"]].append(o)
        elif op == "write_hash":
            if not ev.is_ok(r):
                ctx.violation(f"stress|{mode}|write_hash|{ev.variant(r)}", f"stress: write_hash failed: {ev.brief(r)}", {"steps": [[mode, q]]})
                continue
            o.update(kind="put")
            by_addr[r["ok"]["sri"]].append(o)
        elif op == "remove_hash":
            o.update(kind="del", res="Ok" if ev.is_ok(r) else "Err")
            by_addr[q["sri"]].append(o)
        elif op == "read_hash":
            if ev.is_ok(r):
                data = drv.data_bytes(r["ok"]["data"])
                if ref.sri("sha256", data) != q["sri"]:
                    ctx.violation(f"stress|{mode}|read_hash|wrong-bytes", "stress: read_hash returned bytes not matching the address", {})
                    continue
                o.update(kind="get", res=True)
            elif ev.variant(r) == "IoError":
                o.update(kind="get", res=False)
            else:
                ctx.violation(f"stress|{mode}|read_hash|{ev.variant(r)}", f"stress: read_hash gave {ev.brief(r)} (partial content observed?)",
                              {"steps": [[mode, q]]})
                continue
            by_addr[q["sri"]].append(o)
        elif op == "exists":
            o.update(kind="get", res=bool(r["ok"]["exists"]))
            by_addr[q["sri"]].append(o)
    for k, hs in by_key.items():
        verdict, _w = lin.check(hs, None, lin.register_step, budget_s=5.0)
        ctx.count("subhistories_checked")
        ctx.count("stress_history_ops", len(hs))
        if verdict is None:
            ctx.count("linearizability_timeouts")
        elif verdict is False:
            ctx.violation("stress|key-history-not-linearizable",
                          f"stress round {rnd}: the history of key {k!r} ({len(hs)} operations by {nproc} processes) is not "
                          f"linearizable as a register", {"history": [[o["call"], o["ret"], o["kind"], str(o.get("v") or o.get("res"))[:30], o["mode"]] for o in sorted(hs, key=lambda x: x["call"])][:400]})
    for s, hs in by_addr.items():
        verdict, _w = lin.check(hs, False, lin.presence_step, budget_s=5.0)
        ctx.count("subhistories_checked")
        ctx.count("stress_history_ops", len(hs))
        if verdict is None:
            ctx.count("linearizability_timeouts")
        elif verdict is False:
            ctx.violation("stress|address-history-not-linearizable",
                          f"stress round {rnd}: the history of address {s[:24]} ({len(hs)} operations) is not linearizable",
                          {"history": [[o["call"], o["ret"], o["kind"], str(o.get("res")), o["mode"]] for o in sorted(hs, key=lambda x: x["call"])][:400]})
    # conservation + structure
    for k in keys:
        p = ref.bucket_path(cache, k)
        raw = open(p, "rb").read() if os.path.exists(p) else b""
        recs, gp = ref.check_bucket_grammar(raw)
        if gp:
            ctx.violation("stress|bucket-structure", f"stress round {rnd}: bucket of {k!r}: {gp[0]}", {"bucket_hex": raw[:800].hex()})
        elif len(recs) != acked[k]:
            ctx.violation("stress|lost-or-extra-record", f"stress round {rnd}: key {k!r}: {acked[k]} acknowledged appends, "
                          f"{len(recs)} records on disk", {})
    cp = ref.check_content_tree(cache)
    if cp:
        ctx.violation("stress|content-tree", f"stress round {rnd}: {cp[0]}", {})
    ctx.case(distinct_key=("stress", rnd), sample={"stress_round": rnd, "processes": nproc, "ops": len(ops), "keys": keys}
             if rnd % 10 == 0 else None)
    ctx.rm(base)


# ------------------------------------------------------------------ (3) TSan

def tsan_run(ctx):
    try:
        b = build.ensure("tsan-tok")
    except Exception as e:
        ctx.inconc(f"ThreadSanitizer build unavailable: {e}")
        return
    rng = ctx.rng
    base = ctx.new_dir("tsan")
    cache = os.path.join(base, "cache")
    progs = []
    for t in range(6):
        prog = []
        for j in range(150):
            k = rng.choice(["t1", "t2"])
            r = rng.random()
            m = "async" if t % 2 == 0 else "sync"
            if r < 0.4:
                d = f"tsan-{t}-{j}".encode() * rng.randint(1, 300)
                prog.append({"op": "writer", "mode": m, "cache": cache, "key": k, "opts": {"size": len(d)} if rng.random() < 0.5 else {},
                             "chunks": [{"hex": d[:5].hex()}, {"hex": d[5:].hex()}]})
            elif r < 0.5:
                prog.append({"op": "remove", "mode": m, "cache": cache, "key": k})
            elif r < 0.8:
                prog.append({"op": "read", "mode": m, "cache": cache, "key": k})
            else:
                prog.append({"op": "reader", "mode": m, "cache": cache, "key": k, "bufs": [64]})
        progs.append(prog)
    reqs = [{"op": "parallel", "mode": "async", "programs": progs[:3]}, {"op": "parallel", "mode": "sync", "programs": progs[3:]}]
    resps, rc, err, to = drv.run_script("tsan-tok", reqs, base, timeout=600, binary=b,
                                        env={"TSAN_OPTIONS": "halt_on_error=0 exitcode=0 report_signal_unsafe=0"})
    if to:
        ctx.inconc("ThreadSanitizer run timed out")
        return
    blocks = [blk for blk in err.split("==================") if "WARNING: ThreadSanitizer" in blk]
    ours = [blk for blk in blocks if "cacache::" in blk]
    ctx.extra["tsan"] = {"ops": sum(len(p) for p in progs), "reports_total": len(blocks), "reports_in_cacache": len(ours),
                         "responses": len(resps)}
    ctx.count("tsan_ops", sum(len(p) for p in progs))
    seen = set()
    for blk in ours:
        first = next((ln.strip() for ln in blk.splitlines() if "cacache::" in ln), "?")
        first = re.sub(r"0x[0-9a-f]+", "", first)
        if first in seen:
            continue
        seen.add(first)
        ctx.violation("tsan|" + re.sub(r"\s+", " ", first)[:120], f"ThreadSanitizer reports a data race in cacache code: {first}",
                      {"report": blk[:3000]})
    ctx.rm(base)


# ------------------------------------------------------------------ driver

def run(ctx):
    work = ctx.new_dir("work")
    pts = pair_types(ctx)
    ctx.rule = ("(1) schedules: each operation of a pair/triple is a one-shot process parked by the ptrace supervisor at its "
                "first visible system call; at every decision point one process is released until its next scheduling "
                "point (every call on a shared leaf file: rename onto the content path, open/read/write of bucket and "
                "content files, unlink, getdents; mkdir/fstat and stat of existing directories are not scheduling points on "
                "warm caches). Warm caches, sync mode: ALL interleavings are enumerated depth-first (stateless re-execution "
                "with longer prefixes). Cold caches (every mkdir is contended) and async modes: seeded random and "
                "PCT-style schedules. Oracle: some permutation of the operations must reproduce, in the sequential model, "
                "every observed result and the final state read by a fresh process; plus structure: every bucket a clean "
                "record sequence with exactly the acknowledged number of records, every content file matching its "
                "address. (2) stress: 6-12 free-running processes of all flavours x 2-4 threads/tasks on 2-3 keys and 2-3 "
                "addresses with unique values; per key a register history and per address a presence history are checked "
                "for linearizability (WGL search, 5 s budget, timeout = inconclusive); conservation of records. (3) thorough: "
                "ThreadSanitizer on the in-process workload. (4) overlapping writers of one process (cv/interleave.py): "
                "2-3 writer handles (same/different key and data, declared options, sync and async) advanced in a random "
                "merge of their open/chunk/commit|drop steps; every step must succeed, every commit must return the "
                "data's address (or be rejected iff its declaration is wrong), and after every commit/drop each key "
                "must resolve to the data of its LAST successful commit and every committed address must read back. distinct = distinct (pair, mode, interleaving of scheduling "
                "points) + stress rounds")
    ctx.assumptions = ["clear and remove_fully are excluded by the property", "processes only; scheduling at system-call "
                       "granularity (memory-level races are the TSan part)", "index records are far below tokio's 2 MiB buffer"]
    quick_exh = [p["name"] for p in pts if p["name"] not in ("W(k,A)||list", "W(k,A)||W(k,B)||W(k,C)")]
    total_sched = 0
    all_complete = True
    for pt in pts:
        if ctx.quick and pt["name"] not in quick_exh:
            continue
        cap = 500 if ctx.quick else 6000
        done, ninter, complete = explore_exhaustive(ctx, pt, "sync@astd", work, cap)
        total_sched += done
        all_complete = all_complete and complete
        ctx.extra.setdefault("exhaustive_pairs", {})[pt["name"]] = {"schedules": done, "distinct_interleavings": ninter, "complete": complete}
    ctx.exhaustive = all_complete
    # random: cold caches in sync mode, warm+cold in async modes
    nrand_cold = 40 if ctx.quick else 600
    nrand_async = 20 if ctx.quick else 250
    rand_pts = [p for p in pts if p["name"] in ("W(k,A)||W(k,B)", "Wbig(k,A)||Wbig(k,B)", "Wbig(k,A)||remove(k)", "W(k1,A)||W(k2,A)", "W(k,A)||read(k)", "W(k,A)||list",
                                                "W(k,A)||remove_hash(A)", "W(k,A)||W(k,B)||W(k,C)", "remove_hash||read(k)", "Wrefused(k,A)||W(k2,A)",
                                                "W(k,A)||metadata(k)-junk-only-bucket", "W(k,A)||list-junk-only-bucket",
                                                "W(k,A)||remove(k)||metadata(k)")]
    ri = {}
    for pi, pt in enumerate(rand_pts):
        if pt["name"] in ("W(k,A)||W(k,B)", "W(k1,A)||W(k2,A)", "W(k,A)||W(k,B)||W(k,C)", "W(k,A)||list"):
            ri[pt["name"] + "|sync-cold"] = explore_random(ctx, pt, "sync@astd", work, nrand_cold, True, ctx.seed * 1000 + pi * 100)
        for mode in ("async@astd", "async@tok"):
            ri[pt["name"] + "|" + mode] = explore_random(ctx, pt, mode, work, nrand_async, False, ctx.seed * 7000 + pi * 100)
        if not ctx.quick:
            ri[pt["name"] + "|sync-warm-random"] = explore_random(ctx, pt, "sync@tok", work, nrand_async, False, ctx.seed * 9000 + pi)
    ctx.extra["random_distinct_interleavings"] = ri
    ctx.extra["schedules_exhaustive"] = total_sched
    # stress
    rounds = 25 if ctx.quick else 400
    for rnd in range(rounds):
        stress_round(ctx, rnd, nproc=ctx.rng.randint(6, 12), per_prog=25 if ctx.quick else 40, modes=drv.ALL_MODES)
    ctx.count("stress_rounds", rounds)
    # overlapping writers inside one process, advanced step by step: the serial order is the order of the commits
    from .. import interleave
    interleave.run(ctx, drv.QUICK_MODES if ctx.quick else drv.ALL_MODES, 1500 if ctx.quick else 20000,
                   content_monitor=False, results_monitor=True, big=not ctx.quick)
    if not ctx.quick:
        tsan_run(ctx)
    else:
        ctx.extra["tsan"] = "thorough tier only"
