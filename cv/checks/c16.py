"""C16 — addresses are pure digests: identical data is stored once, algorithms coexist."""
import hashlib
import os

from .. import drv, ev, gen, ref

EPS = ["write", "write_hash", "writer_key", "writer_hash", "writer_hash_size"]


def census(cache):
    out = {}
    root = os.path.join(cache, "content-v2")
    for dp, _dn, fn in os.walk(root):
        for f in fn:
            p = os.path.join(dp, f)
            try:
                with open(p, "rb") as fh:
                    b = fh.read()
            except OSError:
                b = b"<unreadable: dangling link>"
            st = os.lstat(p)
            out[os.path.relpath(p, cache)] = (len(b), hashlib.sha256(b).hexdigest(), st.st_ino)
    return out


def make_req(ctx, rng, cache, ep, algo, key, data):
    if ep == "write":
        return {"op": "write", "cache": cache, "key": key, "algo": algo, "data": ctx.data(data)}
    if ep == "write_hash":
        return {"op": "write_hash", "cache": cache, "algo": algo, "data": ctx.data(data)}
    _shape, lens = gen.chunking(rng, len(data))
    req = {"op": "writer", "cache": cache, "opts": {"algo": algo}, "chunks": [ctx.data(c) for c in gen.split(data, lens)]}
    if ep == "writer_key":
        req["key"] = key
    if ep == "writer_hash_size":
        req["opts"]["size"] = len(data)
    if len(lens) > 1 and rng.random() < 0.4:
        req["flush_after"] = [rng.randrange(len(lens) - 1)]
    return req


def run(ctx):
    rng = ctx.rng
    modes = drv.QUICK_MODES if ctx.quick else drv.ALL_MODES
    nh = 200 if ctx.quick else 3000
    ctx.rule = ("history = 15-40 writes of 2-4 byte strings (incl. empty) under all five algorithms, same key / other "
                "keys / by address, one-shot and streamed entry points, all modes, also after remove_hash and interleaved "
                "with REFUSED re-writes of stored bytes (wrong declared size / integrity) and with re-stores over a copy that was "
                "damaged in the meantime (flipped bit, torn, emptied, dangling link); after "
                "EVERY write a census of content-v2 (path, length, sha256, inode) is compared with the expected set "
                "{<algo>/<hex digest of data>}; sha* digests vs hashlib; xxh3 for determinism; afterwards the copy "
                "under one algorithm is damaged and the entries under the other algorithms must still verify. "
                "distinct = distinct (entry point, mode, algo, first/duplicate, data class) tuples")
    ctx.assumptions = ["hashlib implements the standard digests", "xxh3: no independent implementation, determinism only"]
    xxh3_addr = {}
    for h in range(nh):
        cache = ctx.new_cache()
        datas = [b""] if rng.random() < 0.4 else []
        while len(datas) < rng.randint(2, 4):
            d = gen.data(rng, gen.size(rng))
            if d not in datas:
                datas.append(d)
        expected = {}     # rel -> data
        written = {}      # (algo, data) -> sri string
        keymap = {}       # key -> (sri, data)
        steps = []
        keys = ["k1", "k2", "k/3", "K1", ""]
        ok = True
        for j in range(rng.randint(15, 40)):
            mode = rng.choice(modes)
            ep = rng.choice(EPS)
            algo = rng.choice(gen.ALGOS)
            data = rng.choice(datas)
            key = rng.choice(keys)
            dup = (algo, data) in written
            if dup and rng.random() < 0.15 and algo != "xxh3":
                # remove the stored copy first: the next write must recreate exactly it
                rq = {"op": "remove_hash", "cache": cache, "sri": written[(algo, data)]}
                rr = ctx.call(mode, rq)
                steps.append([mode, rq])
                if ev.is_ok(rr):
                    a, hx = ref.sri_address(written[(algo, data)])
                    expected.pop(ref.content_rel(a, hx), None)
                    del written[(algo, data)]
                    dup = False
            cand = [(a0, d0) for (a0, d0) in written if a0 != "xxh3"]
            if cand and rng.random() < 0.15:
                # the same bytes arrive again through a write that gets REFUSED (wrong declared size / integrity): the
                # stored copy must stay where it is, byte-identical, and no second copy may appear
                a0, d0 = rng.choice(cand)
                kind = rng.choice(["size+1", "size-1", "sri-of-other-data", "sri-in-other-algo"])
                opts = {"algo": a0}
                if kind == "size+1":
                    opts["size"] = len(d0) + 1
                elif kind == "size-1" and d0:
                    opts["size"] = len(d0) - 1
                elif kind == "sri-in-other-algo":
                    opts["sri"] = ref.sri(rng.choice([x for x in ("sha1", "sha256", "sha384", "sha512") if x != a0]), d0)
                else:
                    opts["sri"] = ref.sri(a0, d0 + b"?")
                rq = {"op": "writer", "cache": cache, "opts": opts, "chunks": [ctx.data(c) for c in gen.split(d0, gen.chunking(rng, len(d0))[1])]}
                if rng.random() < 0.6:
                    rq["key"] = rng.choice(keys + ["refused"])
                b0 = census(cache)
                rr = ctx.call(mode, rq)
                a1 = census(cache)
                steps.append([mode, rq])
                ctx.count("refused_rewrites" if not ev.is_ok(rr) else "refused_rewrites_accepted")
                ctx.case(distinct_key=("refused-rewrite", mode, a0, kind, ev.variant(rr)))
                v0 = {p: v[:2] for p, v in b0.items()}
                v1 = {p: v[:2] for p, v in a1.items()}
                if not ev.is_ok(rr) and v0 != v1:
                    missing = sorted(set(v0) - set(v1))
                    extra = sorted(set(v1) - set(v0))
                    changed = sorted(p2 for p2 in set(v0) & set(v1) if v0[p2] != v1[p2])
                    what = (f"stored file missing {missing[0]}" if missing else f"second copy / stray file {extra[0]}" if extra
                            else f"stored bytes changed {changed[0]}")
                    ctx.violation(f"refused-rewrite|{mode}|{kind}|census",
                                  f"bytes that are already stored were written again through a writer whose commit was refused "
                                  f"({ev.brief(rr)[:80]}); afterwards the content area differs: {what}",
                                  {"steps": steps[-12:], "response": rr, "missing": missing[:3], "extra": extra[:3], "changed": changed[:3]})
                    ok = False
                    break
            if dup and algo != "xxh3" and rng.random() < 0.12:
                # the stored copy has suffered in the meantime (bit rot, a torn or emptied file, a stale link): storing the
                # bytes again must leave exactly one copy, and it must hold the bytes
                a9, hx9 = ref.sri_address(written[(algo, data)])
                cp9 = os.path.join(cache, ref.content_rel(a9, hx9))
                kind9 = rng.choice(["flip", "truncate", "empty", "dangling-symlink"]) if data else "dangling-symlink"
                try:
                    os.unlink(cp9)
                except OSError:
                    pass
                if kind9 == "flip":
                    b9 = bytearray(data)
                    b9[rng.randrange(len(b9))] ^= 0x10
                    open(cp9, "wb").write(bytes(b9))
                elif kind9 == "truncate":
                    open(cp9, "wb").write(data[:len(data) // 2])
                elif kind9 == "empty":
                    open(cp9, "wb").close()
                else:
                    os.symlink(os.path.join(cache, "gone"), cp9)
                steps.append(["harness", {"damage_stored_copy": kind9, "path": os.path.relpath(cp9, cache)}])
                ctx.count(f"restores_over_damaged_copy[{kind9}]")
            before = census(cache)
            req = make_req(ctx, rng, cache, ep, algo, key, data)
            steps.append([mode, req])
            r = ctx.call(mode, req)
            after = census(cache)
            sig = f"{ep}|{mode}|{algo}|{'dup' if dup else 'first'}|{'len0' if not data else 'data'}"
            det = {"steps": steps[-12:], "response": r}
            ctx.case(distinct_key=(ep, mode, algo, dup, len(data) == 0),
                     sample={"entry_point": ep, "mode": mode, "algo": algo, "len": len(data), "duplicate": dup,
                             "files_before": len(before), "files_after": len(after)})
            ctx.count("writes_dup" if dup else "writes_first")
            if not ev.is_ok(r):
                ctx.violation(sig + f"|{ev.variant(r)}", f"write failed: {ev.brief(r)}", det)
                ok = False
                break
            sri = r["ok"]["sri"]
            # (a) address is the pure digest
            if algo != "xxh3":
                ctx.count("digests_vs_hashlib")
                if sri != ref.sri(algo, data):
                    ctx.violation(sig + "|wrong-digest", f"returned {sri}, hashlib says {ref.sri(algo, data)}", det)
                    ok = False
                    break
            else:
                ctx.count("xxh3_determinism_checks")
                old = xxh3_addr.get(data)
                if old is not None and old != sri:
                    ctx.violation(sig + "|xxh3-nondeterministic", f"xxh3 address changed {old} -> {sri}", det)
                if not sri.startswith("xxh3-"):
                    ctx.violation(sig + "|algo-ignored", f"xxh3 write returned {sri}", det)
                xxh3_addr[data] = sri
            a, hx = ref.sri_address(sri)
            if a != algo:
                ctx.violation(sig + "|algo-ignored", f"requested {algo}, address is {sri}", det)
                ok = False
                break
            rel = ref.content_rel(a, hx)
            if (algo, data) in written and written[(algo, data)] != sri:
                ctx.violation(sig + "|address-not-pure", f"same (algorithm, bytes) got {written[(algo, data)]} and {sri} "
                              f"(key/entry point/mode dependent address)", det)
            written[(algo, data)] = sri
            expected[rel] = data
            # (b) census: exactly the expected files, each byte-identical to its data
            ctx.count("censuses")
            exp_view = {p: (len(d), hashlib.sha256(d).hexdigest()) for p, d in expected.items()}
            got_view = {p: v[:2] for p, v in after.items()}
            if got_view != exp_view:
                extra = sorted(set(got_view) - set(exp_view))
                missing = sorted(set(exp_view) - set(got_view))
                changed = sorted(p for p in set(got_view) & set(exp_view) if got_view[p] != exp_view[p])
                what = (f"second copy / stray file {extra[0]}" if extra else
                        f"stored file missing {missing[0]}" if missing else f"stored bytes changed {changed[0]}")
                ctx.violation(sig + "|census", f"after the write the content area is not the expected set: {what}",
                              dict(det, extra=extra[:3], missing=missing[:3], changed=changed[:3]))
                ok = False
                break
            # files of other algorithms untouched (same inode => not rewritten) — rename over the same address may
            # legitimately replace that one file, so only *other* files are held to inode identity
            for p, v in before.items():
                if p != rel and after.get(p) != v:
                    ctx.violation(sig + "|other-file-touched", f"writing {rel} changed another content file {p}", det)
                    ok = False
            if ep in ("write", "writer_key"):
                keymap[key] = (sri, data)
        if not ok:
            ctx.rm(cache.rsplit("/", 1)[0])
            continue
        # keys resolve to the single stored copy
        for key, (sri, data) in keymap.items():
            mode = rng.choice(modes)
            m = ctx.call(mode, {"op": "metadata", "cache": cache, "key": key})
            rd = ctx.call(mode, {"op": "read", "cache": cache, "key": key})
            ctx.count("key_resolutions")
            if not ev.is_ok(m) or not m["ok"]["entry"] or m["ok"]["entry"]["integrity"] != sri:
                ctx.violation(f"resolve|{mode}|metadata", f"key {key!r} does not resolve to {sri}: {ev.brief(m)}", {"steps": steps[-12:]})
            if not ev.is_ok(rd) or drv.data_bytes(rd["ok"]["data"]) != data:
                ctx.violation(f"resolve|{mode}|read", f"key {key!r} does not read its data: {ev.brief(rd)}", {"steps": steps[-12:]})
        # (c) algorithms coexist and each is verified with its own algorithm
        by_data = {}
        for (algo, data), sri in written.items():
            by_data.setdefault(data, {})[algo] = sri
        for data, per_algo in by_data.items():
            if len(per_algo) < 2 or len(data) == 0:
                continue
            victim = rng.choice(sorted(per_algo))
            a, hx = ref.sri_address(per_algo[victim])
            vp = ref.content_path(cache, a, hx)
            with open(vp, "r+b") as f:
                b0 = f.read(1)
                f.seek(0)
                f.write(bytes([b0[0] ^ 0x01]))
            for algo, sri in per_algo.items():
                mode = rng.choice(modes)
                rd = ctx.call(mode, {"op": "read_hash", "cache": cache, "sri": sri})
                ctx.count("coexistence_reads")
                ctx.case(distinct_key=("coexist", victim, algo, mode))
                if algo == victim:
                    if ev.is_ok(rd):
                        ctx.violation(f"coexist|{mode}|{algo}|damaged-copy-read-Ok",
                                      f"the damaged {algo} copy was returned as Ok", {"steps": steps[-12:]})
                elif not ev.is_ok(rd) or drv.data_bytes(rd["ok"]["data"]) != data:
                    ctx.violation(f"coexist|{mode}|{algo}|victim-{victim}",
                                  f"damaging the {victim} copy broke the {algo} entry of the same data: {ev.brief(rd)}",
                                  {"steps": steps[-12:]})
            with open(vp, "r+b") as f:
                f.write(b0)
        ctx.rm(cache.rsplit("/", 1)[0])
    ctx.count("histories", nh)
    restore_after_loss(ctx, rng, modes)


def restore_after_loss(ctx, rng, modes):
    """In ONE process: bytes are stored, the single copy goes away (clear, remove_hash, the file / its shard directory /
    the algorithm's whole tree removed from outside), the same bytes are stored again. The second store must succeed,
    return the same address and leave exactly one copy that reads back - whatever the process remembers about
    directories or addresses it has already dealt with."""
    import shutil
    for mode in modes:
        for loss in ("clear", "remove_hash", "unlink-file", "rm-leaf-shard", "rm-top-shard", "rm-algo-tree"):
            for ep in ("write", "write_hash", "writer_key", "writer_hash_size"):
                cache = ctx.new_cache()
                algo = rng.choice(["sha256", "sha512", "sha1"])
                data = rng.randbytes(rng.choice([1, 300, 5000]))
                q1 = make_req(ctx, rng, cache, rng.choice(["write", "write_hash", "writer_key"]), algo, "first", data)
                q2 = make_req(ctx, rng, cache, ep, algo, "second", data)
                w1 = ctx.call(mode, q1)
                want = ref.sri(algo, data)
                det = {"steps": [[mode, q1], ["harness", loss], [mode, q2]], "mode": mode}
                if not ev.is_ok(w1):
                    ctx.inconc(f"restore-after-loss: first store failed: {ev.brief(w1)}")
                    continue
                a, hx = ref.sri_address(want)
                cp = ref.content_path(cache, a, hx)
                if loss == "clear":
                    ctx.call(mode, {"op": "clear", "cache": cache})
                elif loss == "remove_hash":
                    ctx.call(mode, {"op": "remove_hash", "cache": cache, "sri": want})
                elif loss == "unlink-file":
                    os.unlink(cp)
                elif loss == "rm-leaf-shard":
                    shutil.rmtree(os.path.dirname(cp))
                elif loss == "rm-top-shard":
                    shutil.rmtree(os.path.dirname(os.path.dirname(cp)))
                else:
                    shutil.rmtree(os.path.join(cache, "content-v2", a))
                w2 = ctx.call(mode, q2)
                ctx.count("restores_after_loss")
                ctx.case(distinct_key=("restore-after-loss", mode, loss, ep))
                if not ev.is_ok(w2) or w2["ok"].get("sri") != want:
                    ctx.violation(f"restore-after-loss|{mode}|{loss}|{ep}|{ev.variant(w2)}",
                                  f"bytes stored, lost through {loss}, stored again by {ep} in the same {mode} process: {ev.brief(w2)} "
                                  f"(the address is {want})", det)
                    ctx.rm(cache.rsplit("/", 1)[0])
                    continue
                cs = census(cache)
                rd = ctx.call(mode, {"op": "read_hash", "cache": cache, "sri": want})
                rel = os.path.relpath(cp, cache)
                if set(cs) != {rel} or cs[rel][0] != len(data) or not ev.is_ok(rd) or drv.data_bytes(rd["ok"]["data"]) != data:
                    ctx.violation(f"restore-after-loss|{mode}|{loss}|{ep}|copy",
                                  f"after loss through {loss} and a second {ep} the content area holds {sorted(cs)} and "
                                  f"read_hash gives {ev.brief(rd)}; expected the one copy {rel}", det)
                ctx.rm(cache.rsplit("/", 1)[0])
