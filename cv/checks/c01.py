"""C01 — checked reads never deliver bytes that differ from what was stored.

Fault enumeration over content-file damage: every single-bit flip and every
truncation of small files, boundary damage of large files, swap / symlink /
replacement, against every checked retrieval entry point in every mode."""
import os

from .. import drv, ev, gen, ref, retr, sysm, damage


def size_sweep(ctx, rng, cache, destroot, modes):
    """Every edge size (2^k, 3*2^k and neighbours), undamaged and with damage at the last byte, the first byte,
    shortened by one and extended by one, through every checked entry point: a verifier that is skipped or short at
    one exact size shows nowhere else."""
    sizes = [n for n in gen.edge_sizes(17 if ctx.quick else 21) if n >= 1]
    for si, size in enumerate(sizes):
        data = rng.randbytes(size)
        other = rng.randbytes(size)
        key, okey = f"sweep-{size}", f"sweep-other-{size}"
        w1 = ctx.call("sync@astd", {"op": "write", "cache": cache, "key": key, "data": ctx.data(data)})
        w2 = ctx.call("sync@astd", {"op": "write", "cache": cache, "key": okey, "data": ctx.data(other)})
        if not (ev.is_ok(w1) and ev.is_ok(w2)):
            ctx.inconc(f"size sweep: setup write of {size} bytes failed: {ev.brief(w1)}")
            continue
        sri, osri = w1["ok"]["sri"], w2["ok"]["sri"]
        path, opath = ref.content_path_sri(cache, sri), ref.content_path_sri(cache, osri)
        last = bytearray(data)
        last[-1] ^= 1 << rng.randrange(8)
        first = bytearray(data)
        first[0] ^= 1 << rng.randrange(8)
        specs = [("control-no-damage", 0, data), ("bitflip-last-byte", size - 1, bytes(last)),
                 ("bitflip-first-byte", 0, bytes(first)), ("truncate", size - 1, data[:-1]), ("extend1", size, data + b"\x00")]
        mode = modes[si % len(modes)]
        # index entries made through the raw index API that point at the same content: without a recorded size (the
        # index then says 0, i.e. "unknown") and with a size that is simply wrong. Whatever a by-key retrieval makes of
        # them, an Ok must deliver the stored bytes.
        aliases = {"no-recorded-size": {"sri": sri}, "wrong-recorded-size": {"sri": sri, "size": rng.choice([0, 1, size - 1, size + 1, 2 * size])}}
        for an, ao in aliases.items():
            ctx.call("sync@astd", {"op": "index_insert", "cache": cache, "key": f"{key}-{an}", "opts": ao})
        for spec in specs:
            cls = spec[0]
            with damage.Damaged(path, opath, spec, data, other):
                names = [n for n in retr.CHECKED_WHOLE + retr.CHECKED_STREAM + retr.CHECKED_EXTRACT
                         if retr.available(n, mode) and not n.startswith("reflink")]
                ddir = os.path.join(destroot, f"sweep-{size}-{cls}")
                os.makedirs(ddir, exist_ok=True)
                reqs, meta = [], []
                for n in names:
                    dest = os.path.join(ddir, n) if n in retr.CHECKED_EXTRACT else None
                    bs = rng.choice(retr.BUFSETS[2:]) if n in retr.CHECKED_STREAM else None
                    reqs.append(retr.request(n, cache, key, sri, dest, bs))
                    meta.append((n, dest, bs))
                    if n in ("read", "reader_key", "copy", "hard_link"):
                        for an in aliases:
                            adest = os.path.join(ddir, f"{n}-{an}") if dest else None
                            reqs.append(retr.request(n, cache, f"{key}-{an}", sri, adest, bs))
                            meta.append((f"{n}[{an}]", adest, bs))
                for (n, dest, bs), r, q in zip(meta, ctx.batch(mode, reqs), reqs):
                    ok = ev.is_ok(r)
                    delivered = None
                    if ok:
                        delivered = retr.read_dest(dest)[1] if dest is not None else drv.data_bytes(r["ok"]["data"])
                    ctx.count("size_sweep_retrievals")
                    ctx.case(distinct_key=("sweep", n, mode, cls, size))
                    if cls == "control-no-damage":
                        if (not ok and "[" not in n) or (ok and delivered != data):
                            ctx.violation(f"{n}|{mode}|undamaged|size-sweep",
                                          f"{n} in {mode} (buffers {bs}) on an UNDAMAGED {size}-byte entry: "
                                          + (f"Ok but delivered {None if delivered is None else len(delivered)} bytes that differ from the stored ones"
                                             if ok else f"failed with {ev.brief(r)}"),
                                          {"entry_point": n, "mode": mode, "size": size, "bufs": bs, "steps": [[mode, q]]})
                    elif ok and delivered != data:
                        ctx.violation(f"{n}|{mode}|{cls}|size-sweep",
                                      f"{n} in {mode} returned Ok on a {size}-byte content file damaged by {cls} and delivered "
                                      f"{None if delivered is None else len(delivered)} bytes that are not the bytes originally stored",
                                      {"entry_point": n, "mode": mode, "damage": cls, "size": size, "bufs": bs, "steps": [[mode, q]]})
                ctx.rm(ddir)
        ctx.call("sync@astd", {"op": "remove_fully", "cache": cache, "key": key})
        ctx.call("sync@astd", {"op": "remove_fully", "cache": cache, "key": okey})


def run(ctx):
    rng = ctx.rng
    modes = drv.QUICK_MODES if ctx.quick else drv.ALL_MODES
    if ctx.quick:
        small_sizes = [1, 17]
        algos = ["sha256", rng.choice(["sha512", "sha1", "sha384", "xxh3"])]
        large_sizes = [8193, 20011]
    else:
        small_sizes = [1, 2, 17, 64]
        algos = list(gen.ALGOS)
        large_sizes = [4097, gen.MIB - 1, gen.MIB + 1, 3 * gen.MIB]
    ctx.rule = ("case = (stored data, damage, checked retrieval entry point, mode). Small files: EVERY single-bit "
                "flip and EVERY truncation length, plus extension, emptying, another entry's bytes, swap with another "
                "entry, symlink to another entry. Large files: seeded multi-byte damage and truncation at buffer "
                "boundaries (1 KiB, 8 KiB), start, middle, end. Entry points: read, read_hash, Reader by key/by hash "
                "with 7 buffer-size patterns (incl. a zero-length read), copy, copy_hash, hard_link*, reflink* "
                "(reflink also under an emulated FICLONE so the code after verification is reached). A retrieval is "
                "non-trivial when the damage really changed the file's bytes. Size sweep: every size 2^k, 3*2^k and neighbours "
                "(k <= 17 quick, 21 thorough), undamaged and damaged at the last/first byte, one byte short, one byte long, "
                "through every checked entry point, also by keys whose index entry (raw index insert) records no size or a wrong one. "
                "Mid-call: read, read_hash and Reader (by key / address) run as a process next to a second process that flips one bit "
                "of the content file in place; the ptrace scheduler enumerates their interleavings depth-first (capped, then random "
                "schedules): Ok only with exactly the stored bytes. distinct = (entry point, mode, damage "
                "class, position, algo, size)")
    ctx.assumptions = ["no reflink-capable filesystem: ioctl(FICLONE) is emulated by the supervisor",
                       "damage is applied between calls; during a call only for read/read_hash/Reader (one bit flipped in place "
                       "by a second process at every system-call boundary) - the extraction entry points verify and then act by path"]
    ctx.exhaustive = True
    base = ctx.new_dir("base")        # cache and destinations on one file system (hard links!)
    cache = os.path.join(base, "cache")
    destroot = os.path.join(base, "dest")
    os.makedirs(destroot)
    # a driver whose FICLONE ioctls are emulated (reflink paths past verification)
    fic = {}

    def ficlone_driver(variant):
        if variant not in fic:
            w = sysm.argv([ctx.scratch] + ([ctx.scratch2] if ctx.scratch2 else []), "/dev/null", ficlone=True,
                          all_in_op=True, timeout=3600)
            fic[variant] = drv.Driver(variant, outdir=ctx.outdir, wrapper=w)
        return fic[variant]

    n_ok_trivial = 0
    plan = [(s, a, "small") for s in small_sizes for a in algos] + \
           [(s, a, "large") for s in large_sizes for a in (algos if not ctx.quick else algos[:1])]
    for (size, algo, kind) in plan:
        data = gen.data(rng, size)
        if size and len(set(data)) == 1:
            data = rng.randbytes(size)
        other = rng.randbytes(size) if size else b"x"
        while other == data:
            other = rng.randbytes(size)
        key, okey = f"victim-{size}-{algo}", f"other-{size}-{algo}"
        w1 = ctx.call("sync@astd", {"op": "write", "cache": cache, "key": key, "algo": algo, "data": ctx.data(data)})
        w2 = ctx.call("sync@astd", {"op": "write", "cache": cache, "key": okey, "algo": algo, "data": ctx.data(other)})
        if not (ev.is_ok(w1) and ev.is_ok(w2)):
            ctx.inconc(f"setup write failed: {ev.brief(w1)} / {ev.brief(w2)}", fatal=True)
            return
        sri, osri = w1["ok"]["sri"], w2["ok"]["sri"]
        path = ref.content_path_sri(cache, sri)
        opath = ref.content_path_sri(cache, osri)
        dmg = damage.small_damages(data, other) if kind == "small" else damage.large_damages(rng, data, other)
        dmg = [("control-no-damage", 0, data)] + dmg
        for spec in dmg:
            cls, pos, _new = spec
            with damage.Damaged(path, opath, spec, data, other) as dm:
                changed = dm.current != data
                for mode in modes:
                    names = [n for n in retr.CHECKED_WHOLE + retr.CHECKED_STREAM + retr.CHECKED_EXTRACT
                             if retr.available(n, mode)]
                    reqs, meta = [], []
                    ddir = os.path.join(destroot, f"d{ctx.counters['evaluations']}")
                    os.makedirs(ddir, exist_ok=True)
                    for n in names:
                        bufsets = retr.BUFSETS if n in retr.CHECKED_STREAM else [None]
                        if n in retr.CHECKED_STREAM and (kind == "large" or ctx.quick) and cls != "control-no-damage":
                            bufsets = [rng.choice(retr.BUFSETS[2:]), rng.choice(retr.BUFSETS)] if size < 20000 \
                                else [rng.choice(retr.BUFSETS[2:5])]
                        for bs in bufsets:
                            dest = os.path.join(ddir, f"{n}-{len(reqs)}") if n in retr.CHECKED_EXTRACT else None
                            reqs.append(retr.request(n, cache, key, sri, dest, bs))
                            meta.append((n, dest, bs, False))
                        if n in ("copy", "copy_hash") and (cls == "control-no-damage" or pos % 5 == 0):
                            # the destination already exists and is longer than the entry
                            dest = os.path.join(ddir, f"{n}-over-existing")
                            with open(dest, "wb") as f:
                                f.write(b"STALE DESTINATION CONTENT " * (size // 20 + 3))
                            reqs.append(retr.request(n, cache, key, sri, dest, None))
                            meta.append((n + "-onto-longer-file", dest, None, False))
                    resps = ctx.batch(mode, reqs)
                    # reflink under emulated FICLONE
                    variant, m = drv.MODES[mode]
                    rreqs, rmeta = [], []
                    for n in ("reflink", "reflink_hash"):
                        dest = os.path.join(ddir, f"{n}-emu")
                        q = retr.request(n, cache, key, sri, dest)
                        q["mode"] = m
                        rreqs.append(q)
                        rmeta.append((n + "+ficlone", dest, None, True))
                    try:
                        rresps = ficlone_driver(variant).batch(rreqs, timeout=60)
                    except (drv.DriverHang, drv.DriverDied) as e:
                        ctx.inconc(f"FICLONE-emulating driver failed: {e}")
                        fic.pop(variant, None)
                        rresps = []
                    for (n, dest, bs, emu), r in list(zip(meta, resps)) + list(zip(rmeta, rresps)):
                        ctx.count(f"retrievals[{n}@{mode}]")
                        ok = ev.is_ok(r)
                        delivered = None
                        if ok:
                            if dest is not None:
                                _k, delivered = retr.read_dest(dest)
                            else:
                                delivered = drv.data_bytes(r["ok"]["data"])
                        if not changed:
                            n_ok_trivial += 1 if ok else 0
                            ctx.counters["evaluations"] += 1
                            if cls == "control-no-damage":
                                ctx.count(f"control_{'ok' if ok and delivered == data else 'not_ok'}[{n}]")
                                if emu and not (ok and delivered == data):
                                    ctx.inconc(f"emulated FICLONE did not produce a successful reflink: {ev.brief(r)}")
                                if ok and delivered != data:
                                    ctx.violation(f"{n}|{mode}|undamaged|{algo}|{kind}",
                                                  f"{n} in {mode} (buffers {bs}) returned Ok on an UNDAMAGED {size}-byte entry but "
                                                  f"delivered {None if delivered is None else len(delivered)} bytes that differ from "
                                                  f"the stored ones", {"entry_point": n, "mode": mode, "algo": algo, "size": size,
                                                                       "bufs": bs, "steps": [[mode, reqs[0]]]})
                            continue
                        ctx.count("returned_Err" if not ok else "returned_Ok")
                        ctx.case(distinct_key=(n, mode, cls, pos, algo, size),
                                 sample={"entry_point": n, "mode": mode, "damage": cls, "position": pos, "algo": algo,
                                         "size": size, "bufs": bs, "result": ev.variant(r)}
                                 if ctx.counters["evaluations"] % 499 == 0 else None)
                        if ok and delivered != data:
                            ctx.violation(f"{n}|{mode}|{cls}|{algo}|{kind}",
                                          f"{n} in {mode} returned Ok on a content file damaged by {cls}@{pos} and "
                                          f"delivered {None if delivered is None else len(delivered)} bytes that are "
                                          f"not the {size} bytes originally stored",
                                          {"entry_point": n, "mode": mode, "damage": [cls, pos], "algo": algo, "size": size,
                                           "bufs": bs, "steps": [["sync@astd", {"op": "write", "cache": cache, "key": key,
                                                                              "algo": algo, "data": {"hex": data[:2048].hex()}}],
                                                                 [mode, reqs[0] if not emu else rreqs[0]]],
                                           "damaged_hex": dm.current[:256].hex()})
                    ctx.rm(ddir)
        ctx.count("files_damaged")
    size_sweep(ctx, rng, cache, destroot, modes)
    # a destination produced by an earlier extraction (same or another entry point; a hard link IS the content file),
    # the content then damaged in place, a checked extraction onto it: Ok only with the stored bytes (shared with C18)
    from . import c18
    c18.repeat_after_damage(ctx, rng, cache, destroot, modes)
    # the content file modified in place WHILE an in-memory checked retrieval runs (two processes under the system-call
    # scheduler, interleavings enumerated): Ok only with the stored bytes
    from . import c01_midcall
    c01_midcall.run(ctx, rng, modes)
    for d in fic.values():
        d.close()
    ctx.extra["ok_on_trivial_damage"] = n_ok_trivial
    ctx.extra["sizes"] = {"small": small_sizes, "large": large_sizes}
    ctx.extra["algos"] = algos
