"""C17 — the on-disk layout is the fixed, versioned cacache format, readable by others.
Differential against the independent reference implementation (cv.ref), both directions."""
import os
import re

from .. import drv, ev, gen, hist, ref
from ..model import Model, entry_diffs, same_json


def ref_entry_to_model(e):
    return {"key": e["key"], "integrity": e["integrity"], "time": e["time"], "size": e["size"],
            "metadata": e["metadata"], "raw_metadata": e["raw_metadata"]}


def path_census(cache):
    """Every path under index-v5/ and content-v2/ must have the fixed shape."""
    probs = []
    idx = os.path.join(cache, "index-v5")
    for dp, dn, fn in os.walk(idx):
        rel = os.path.relpath(dp, idx)
        depth = 0 if rel == "." else rel.count(os.sep) + 1
        for d in dn:
            if depth >= 2 or not re.fullmatch(r"[0-9a-f]{2}", d):
                probs.append(f"unexpected directory index-v5/{os.path.join(rel, d)}")
        for f in fn:
            if depth != 2 or not re.fullmatch(r"[0-9a-f]{36}", f):
                probs.append(f"unexpected file index-v5/{os.path.join(rel, f)}")
    probs.extend(ref.check_content_tree(cache))
    for t in os.listdir(cache) if os.path.isdir(cache) else []:
        if t.startswith("index-") and t != "index-v5" or t.startswith("content-") and t != "content-v2":
            probs.append(f"unexpected versioned directory {t}")
    return probs


SPELLINGS = ["canonical", "canonical", "trailing-slash", "dot-inside", "dotdot", "symlink", "relative", "relative-dot",
             "double-slash", "non-utf8", "non-ascii"]


def spell(rng, cache, kind):
    """Another way of naming the directory `cache` (absolute, not yet existing is fine except for 'symlink').
    Returns (path to hand to the library, directory to chdir to first or None)."""
    parent, name = os.path.split(cache)
    if kind == "trailing-slash":
        return cache + "/", None
    if kind == "dot-inside":
        return os.path.join(parent, ".", name, "."), None
    if kind == "double-slash":
        return parent + "//" + name, None
    if kind == "dotdot":
        os.makedirs(os.path.join(parent, "side"), exist_ok=True)
        return os.path.join(parent, "side", "..", name), None
    if kind == "symlink":
        os.makedirs(cache, exist_ok=True)
        link = os.path.join(parent, "link-to-" + name)
        if not os.path.islink(link):
            os.symlink(cache, link)
        return link, None
    if kind in ("non-utf8", "non-ascii"):
        # a path component that is not valid UTF-8 (legal on Linux; a Latin-1 locale's "cafe" with an accent), or one
        # with multi-byte characters and spaces; handed to the driver as bytes
        comp = b"caf\xe9 \xff\xfe" if kind == "non-utf8" else "d\u00e9p\u00f4t \u4e2d\U0001F600".encode()
        link = os.path.join(os.fsencode(parent), comp)
        if not os.path.islink(link):
            os.symlink(b".", link)
        return "hex:" + os.path.join(link, os.fsencode(name)).hex(), None
    if kind == "relative":
        return name, parent
    if kind == "relative-dot":
        return "./" + name, parent
    return cache, None


def respell(rng, cache, steps, kind):
    """Give every step the spelled cache path; relative spellings are bracketed by chdir steps (per mode batch)."""
    sp, cwd = spell(rng, cache, kind)
    out = []
    for st in steps:
        st = dict(st, req=dict(st["req"], cache=sp))
        if cwd:
            out.append({"mode": st["mode"], "req": {"op": "chdir", "dir": cwd}, "harness": True})
        out.append(st)
        if cwd:
            out.append({"mode": st["mode"], "req": {"op": "chdir", "dir": "/"}, "harness": True})
    return out


def run(ctx):
    rng = ctx.rng
    modes = drv.QUICK_MODES if ctx.quick else drv.ALL_MODES
    nc = 250 if ctx.quick else 4000
    ctx.rule = ("cache = 5-25 operations (writes with all metadata shapes / times / raw metadata / algorithms, "
                "removals, re-writes) over hostile and random keys. Direction A: the library writes (each mode; the cache "
                "directory named canonically, with a trailing slash, ./, x/../, //, through a symlink or relative to the "
                "working directory), "
                "then the reference implementation decodes the tree: path census, byte-level record grammar, "
                "lookups, listing and content compared with the library's own answers and with the model. "
                "Direction B: the reference implementation writes the cache (4 different legal JSON spellings), the "
                "library reads it in every mode. distinct = distinct (direction, mode, record-count class, "
                "spelling) tuples + distinct keys")
    ctx.assumptions = ["cv.ref is an independent implementation written from the format description",
                       "xxh3 content is only produced by the library (direction A)"]
    for c in range(nc):
        # ---------------------------------------------------------- direction A
        cache = ctx.new_cache()
        mode = modes[c % len(modes)]
        keys = list(dict.fromkeys(rng.sample(gen.HOSTILE_KEYS, 3) + [gen.rand_unicode_key(rng) for _ in range(3)]))
        steps = []
        for j in range(rng.randint(5, 25)):
            k = rng.choice(keys)
            if rng.random() < 0.25:
                steps.append({"mode": mode, "req": {"op": "remove", "cache": cache, "key": k}})
                continue
            data = gen.data(rng, gen.size(rng))
            opts = {"algo": rng.choice(gen.ALGOS)}
            if rng.random() < 0.6:
                opts["metadata"] = gen.json_value(rng, maxdepth=3)
            if rng.random() < 0.4:
                opts["raw_metadata"] = gen.raw_metadata(rng)[:100].hex()
            if rng.random() < 0.02:
                opts["raw_metadata"] = rng.randbytes(30000).hex()     # a record of > 64 KiB
            if rng.random() < 0.06:
                # a record of 10-60 KiB made of multi-byte characters: wherever a reader cuts the bucket into blocks,
                # the cut falls inside a character
                opts["metadata"] = {"漢字": rng.choice(["漢", "é", "😀", "漢é😀a"]) * rng.choice([4000, 9000, 20000])}
            if rng.random() < 0.6:
                opts["time"] = str(gen.time_value(rng))
            steps.append({"mode": mode, "req": {"op": "writer", "cache": cache, "key": k, "opts": opts,
                                                "chunks": [ctx.data(data)]}, "data": data})
        # the directory may be NAMED in several ways (trailing slash, ./, x/../, symlink, relative to the working
        # directory): the files must be in the same place
        spelling = rng.choice(SPELLINGS)
        ctx.count(f"cache_path_spelling[{spelling}]")
        xsteps = respell(rng, cache, steps, spelling)
        parent_before = set(os.listdir(os.fsencode(os.path.dirname(cache))))
        xresps = hist.execute(ctx, xsteps)
        # whatever the spelling, nothing may appear NEXT TO the cache directory (a temp area or index derived from a
        # lossy or re-interpreted form of the path)
        grown = set(os.listdir(os.fsencode(os.path.dirname(cache)))) - parent_before - {os.fsencode(os.path.basename(cache))}
        if grown:
            ctx.violation(f"A|{mode}|sibling-of-cache-created|{spelling}",
                          f"direction A (cache path spelled {spelling}): the library created {sorted(grown)[:3]} next to the cache "
                          f"directory", {"steps": [[x["mode"], x["req"]] for x in xsteps[:6]], "cache_path_spelling": spelling})
        resps = [r for st, r in zip(xsteps, xresps) if not st.get("harness")]
        model = Model()
        bad = False
        for s, r in zip(steps, resps):
            probs, _ = hist.judge(model, s, r)
            if probs and not bad:
                bad = True
                ctx.violation(f"A|{mode}|library-op|{spelling}", f"direction A (cache path spelled {spelling}): {probs[0]}",
                              {"steps": [[x["mode"], x["req"]] for x in xsteps]})
        det = {"steps": [[x["mode"], x["req"]] for x in xsteps], "cache_path_spelling": spelling}
        # path census
        for p in path_census(cache):
            ctx.violation(f"A|{mode}|path-census", f"direction A: {p}", det)
            break
        # record grammar + placement
        nrecords = 0
        if os.path.isdir(os.path.join(cache, "index-v5")):
            for dp, _dn, fn in os.walk(os.path.join(cache, "index-v5")):
                for f in fn:
                    p = os.path.join(dp, f)
                    with open(p, "rb") as fh:
                        raw = fh.read()
                    recs, probs = ref.check_bucket_grammar(raw)
                    ctx.count("grammar_checks")
                    nrecords += len(recs)
                    if probs:
                        ctx.violation(f"A|{mode}|record-grammar", f"bucket {os.path.relpath(p, cache)}: {probs[0]}",
                                      dict(det, bucket_hex=raw[:600].hex()))
                        break
                    for e in recs:
                        if ref.bucket_rel(e["key"]) != os.path.relpath(p, cache):
                            ctx.violation(f"A|{mode}|record-placement",
                                          f"record for key {e['key']!r} found in {os.path.relpath(p, cache)}, the "
                                          f"format puts it in {ref.bucket_rel(e['key'])}", det)
        nwrites = sum(1 for s in steps)
        if nrecords != nwrites and not bad:
            ctx.violation(f"A|{mode}|record-count", f"{nwrites} successful writes/removals but {nrecords} records on disk", det)
        # reference reads == model == library
        reqs = []
        for k in keys:
            reqs.append({"op": "metadata", "cache": cache, "key": k})
            reqs.append({"op": "read", "cache": cache, "key": k})
        lib = ctx.batch(mode, reqs)
        for i, k in enumerate(keys):
            ctx.count("cross_reads_A")
            e = ref.lookup(cache, k)
            mexp = model.lookup(k)
            if (e is None) != (mexp is None):
                ctx.violation(f"A|{mode}|reference-lookup", f"reference implementation {'finds' if e else 'misses'} key "
                              f"{k!r}, the model says {'present' if mexp else 'absent'}", det)
                continue
            libm, libr = lib[2 * i], lib[2 * i + 1]
            if e is None:
                if not (ev.is_ok(libm) and libm["ok"]["entry"] is None):
                    ctx.violation(f"A|{mode}|library-vs-reference", f"library finds {k!r}, reference does not", det)
                continue
            d = entry_diffs(libm["ok"]["entry"] if ev.is_ok(libm) else None, ref_entry_to_model(e))
            if d:
                ctx.violation(f"A|{mode}|library-vs-reference", f"key {k!r}: library vs reference: {d[0]}", det)
            b, verified = ref.read_content(cache, e["integrity"])
            want = model.read(k)[1]
            if b != want or verified is False:
                ctx.violation(f"A|{mode}|reference-content", f"reference reads {None if b is None else len(b)} bytes for "
                              f"{k!r} (verified={verified}), expected {len(want)}", det)
            if not ev.is_ok(libr) or drv.data_bytes(libr["ok"]["data"]) != want:
                ctx.violation(f"A|{mode}|library-content", f"library read of {k!r}: {ev.brief(libr)}", det)
        ctx.case(distinct_key=("A", mode, min(nrecords, 30), spelling),
                 sample={"direction": "library->reference", "mode": mode, "keys": keys, "records": nrecords} if c % 20 == 0 else None)
        for k in keys:
            ctx.distinct.add(("key", k))
        ctx.rm(cache.rsplit("/", 1)[0])
        # ---------------------------------------------------------- direction B
        cache = ctx.new_cache()
        os.makedirs(cache, exist_ok=True)
        style = c % 4
        bkeys = list(dict.fromkeys(rng.sample(gen.HOSTILE_KEYS, 3) + [gen.rand_unicode_key(rng) for _ in range(3)]))
        truth = {}
        nrec = 0
        torn_tails = c % 3 == 1
        for j in range(rng.randint(5, 25)):
            k = rng.choice(bkeys)
            if torn_tails and rng.random() < 0.3:
                # what an interrupted append of ANY writer of this format leaves behind: a proper prefix of a record. The
                # format's answer is the newline every record starts with - the fragment is a line of its own that fails
                # its checksum, and every record before and after it counts.
                frag = ref.record_bytes(ref.entry_json(k, ref.sri("sha256", b"never finished"), rng.randrange(10 ** 13), 14, style=style))
                bp = ref.bucket_path(cache, k)
                os.makedirs(os.path.dirname(bp), exist_ok=True)
                with open(bp, "ab") as f:
                    f.write(frag[:rng.randrange(2, len(frag))])
                ctx.count("torn_fragments_in_reference_buckets")
            if rng.random() < 0.25:
                ref.append_record(cache, k, ref.entry_json(k, None, rng.randrange(10 ** 13), 0, style=style))
                truth.pop(k, None)
                nrec += 1
                continue
            data = gen.data(rng, gen.size(rng))
            algo = rng.choice(ref.HASHLIB_ALGOS)
            sri = ref.write_content(cache, algo, data)
            md = gen.json_value(rng, maxdepth=3) if rng.random() < 0.6 else None
            raw = gen.raw_metadata(rng)[:100] if rng.random() < 0.4 else None
            if rng.random() < 0.02:
                raw = rng.randbytes(30000)     # a record of > 64 KiB
            if rng.random() < 0.06:
                md = {"漢字": rng.choice(["漢", "é", "😀", "漢é😀a"]) * rng.choice([4000, 9000, 20000])}
            t = gen.time_value(rng)
            sz = len(data)
            if data and rng.random() < 0.12:
                sz = 0        # other writers leave the size at 0 when they do not know it; the data is still the data
            ref.append_record(cache, k, ref.entry_json(k, sri, t, sz, md, raw, style=style))
            nrec += 1
            truth[k] = ({"key": k, "integrity": sri, "time": t, "size": sz, "metadata": md, "raw_metadata": raw}, data)
        det = {"style": style, "cache_records": nrec, "keys": bkeys}
        for m in modes:
            reqs = []
            for k in bkeys:
                reqs.append({"op": "metadata", "cache": cache, "key": k})
                reqs.append({"op": "read", "cache": cache, "key": k})
                small = k in truth and len(truth[k][1]) < 2000
                reqs.append({"op": "reader", "cache": cache, "key": k,
                             "bufs": [rng.choice([1, 100, 8192]) if small else rng.choice([4096, 8192])]})
            reqs.append({"op": "list", "cache": cache, "mode": "sync"})
            lib = ctx.batch(m, reqs)
            for i, k in enumerate(bkeys):
                ctx.count("cross_reads_B")
                lm, lr, lrd = lib[3 * i], lib[3 * i + 1], lib[3 * i + 2]
                exp = truth.get(k)
                if not ev.is_ok(lm):
                    ctx.violation(f"B|{m}|style{style}|metadata-{ev.variant(lm)}", f"library cannot look up {k!r} in a "
                                  f"reference-written cache: {ev.brief(lm)}", det)
                    continue
                d = entry_diffs(lm["ok"]["entry"], exp[0] if exp else None)
                if d:
                    ctx.violation(f"B|{m}|style{style}|entry", f"reference-written cache, key {k!r}: {d[0]}", det)
                for what, rr in (("read", lr), ("Reader", lrd)):
                    if exp is None:
                        if ev.variant(rr) != "EntryNotFound":
                            ctx.violation(f"B|{m}|style{style}|{what}-absent", f"{what}({k!r}) gave {ev.brief(rr)}", det)
                    elif not ev.is_ok(rr) or drv.data_bytes(rr["ok"]["data"]) != exp[1]:
                        ctx.violation(f"B|{m}|style{style}|{what}", f"{what}({k!r}) on a reference-written cache: {ev.brief(rr)}", det)
            ll = lib[-1]
            listed = {e["key"]: e for e in ll["ok"]["items"] if "err" not in e} if ev.is_ok(ll) else None
            if listed is None or set(listed) != set(truth):
                ctx.violation(f"B|{m}|style{style}|list", f"listing of a reference-written cache: keys "
                              f"{sorted(listed) if listed is not None else ev.brief(ll)} vs {sorted(truth)}", det)
            else:
                for k, e in listed.items():
                    d = entry_diffs(e, truth[k][0])
                    if d:
                        ctx.violation(f"B|{m}|style{style}|list-entry", f"listing, key {k!r}: {d[0]}", det)
            ctx.case(distinct_key=("B", m, style, min(nrec, 30)),
                     sample={"direction": "reference->library", "mode": m, "spelling": style, "records": nrec,
                             "keys": bkeys} if c % 20 == 0 and m == modes[0] else None)
        for k in bkeys:
            ctx.distinct.add(("key", k))
        ctx.rm(cache.rsplit("/", 1)[0])
    ctx.count("caches", 2 * nc)
