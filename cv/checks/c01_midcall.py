"""C01, part (5): the content file is modified IN PLACE WHILE a checked in-memory retrieval is running.

Two one-shot processes under the ptrace supervisor: the retrieval (read, read_hash, Reader by key / by address) and a
modifier that flips one bit of the content file (open, pread, pwrite). The supervisor parks both at every visible
system call and the harness enumerates the interleavings depth-first (stateless, as in C07), so the flip lands before
the first read, between any two reads, between a verification pass and whatever follows it, and after the last read.

Oracle: whenever the retrieval says Ok, the bytes it handed out are the bytes originally stored - "a successful
checked retrieval never hands out bytes whose digest is not the requested address". For the in-memory retrievals this
holds whatever a concurrent modifier does as long as the bytes that are hashed are the bytes that are handed out;
it stops holding as soon as verification and delivery are two passes over the file. The extraction entry points
(copy, hard_link, reflink) are NOT part of this: they verify and then act by path, a window the API itself has."""
import os

from .. import crash, drv, ev, ref, retr, sysm

NOSCHED = "mkdir,mkdirat,fstat"


def run(ctx, rng, modes):
    work = ctx.new_dir("midcall")
    sizes = [5, 70001] if ctx.quick else [1, 5, 9000, 70001, (1 << 20) + 5]
    cap = 45 if ctx.quick else 160
    nrand = 6 if ctx.quick else 30
    outcomes = {}
    for size in sizes:
        data = rng.randbytes(size)
        tdir = os.path.join(work, f"t-{size}")
        os.makedirs(tdir)
        tcache = os.path.join(tdir, "cache")
        algo = rng.choice(["sha256", "sha512", "sha1"])
        w = ctx.call("sync@astd", {"op": "write", "cache": tcache, "key": "k", "algo": algo, "data": ctx.data(data)})
        if not ev.is_ok(w):
            ctx.inconc(f"mid-call modifier: setup write of {size} bytes failed: {ev.brief(w)}")
            continue
        sri = w["ok"]["sri"]
        rel = os.path.relpath(ref.content_path_sri(tcache, sri), tcache)
        for mode in modes:
            variant, m = drv.MODES[mode]
            for n in retr.CHECKED_WHOLE + retr.CHECKED_STREAM:
                offs = [0] if size < 10 else [0, size - 1]
                for off in offs:
                    bs = None
                    if n in retr.CHECKED_STREAM:
                        bs = rng.choice([[65536], [8192, 65536], ("to_end", 0, [8192]), ("to_end", 1, [7])]) if size > 8192 else \
                            rng.choice([[1], [7], [8192], ("to_end", 1, [1])])
                    req = retr.request(n, "<C>", "k", sri, None, bs)

                    def one(job, req=req, off=off, variant=variant, m=m):
                        prefix, tail = job
                        rdir = os.path.join(work, f"r-{os.getpid()}-{os.urandom(5).hex()}")
                        c = crash.instantiate(tdir, rdir)
                        cmds = [sysm.oneshot(variant, crash.subst(req, c), m),
                                sysm.oneshot(variant, {"op": "poke", "path": os.path.join(c, rel), "offset": off})]
                        res = sysm.run(cmds, [c], work, sched=prefix, tail=tail, nosched=NOSCHED, timeout=60)
                        return job, rdir, c, res

                    def judge(job, rdir, c, res):
                        if res.timed_out:
                            ctx.inconc(f"mid-call modifier: {n} in {mode} hit the supervisor watchdog")
                            return None
                        resp, presp = res.responses(0), res.responses(1)
                        if not resp or not presp:
                            ctx.inconc(f"mid-call modifier: no response from the {'retrieval' if not resp else 'modifier'} ({n}, {mode})")
                            return None
                        r = resp[0]
                        sched = [d["chosen"] for d in res.decisions]
                        order = tuple(e["proc"] for e in res.events if e.get("sched") and "name" in e)
                        det = {"entry_point": n, "mode": mode, "size": size, "offset": off, "bufs": bs, "schedule": sched,
                               "interleaving": list(order),
                               "steps": [["sync@astd", {"op": "write", "cache": "<C>", "key": "k", "algo": algo,
                                                        "data": {"hex": data[:2048].hex()}}], [mode, req]]}
                        if ev.is_panic(r) or ev.is_hang(r) or "died" in r:
                            ctx.violation(f"midcall|{n}|{mode}|{ev.variant(r)}",
                                          f"{n} in {mode} ended in {ev.brief(r)} while the content file was modified under it", det)
                            return sched, order
                        if not ev.is_ok(presp[0]):
                            ctx.inconc(f"mid-call modifier: the modifier itself failed: {ev.brief(presp[0])}")
                            return sched, order
                        ok = ev.is_ok(r)
                        ctx.count("midcall_Ok" if ok else "midcall_Err")
                        outcomes.setdefault(f"{n}@{mode}", set()).add(ev.variant(r) if not ok else "Ok")
                        ctx.case(distinct_key=("midcall", n, mode, size, off, order),
                                 sample={"entry_point": n, "mode": mode, "size": size, "flip_at": off, "interleaving": list(order),
                                         "result": ev.variant(r) if not ok else "Ok"} if ctx.counters.get("midcall_Ok", 0) % 61 == 1 else None)
                        if ok:
                            delivered = drv.data_bytes(r["ok"]["data"])
                            if delivered != data:
                                ctx.violation(f"midcall|{n}|{mode}|Ok-with-modified-bytes",
                                              f"{n} in {mode} returned Ok while a concurrent modifier flipped a bit at offset {off} of the "
                                              f"{size}-byte content file (interleaving {list(order)}), and handed out "
                                              f"{len(delivered)} bytes that are not the bytes stored under {sri[:24]}...", det)
                        return sched, order

                    stack, done, seen = [[]], 0, set()
                    while stack and done < cap:
                        wave = [(stack.pop(), "first") for _ in range(min(14, len(stack), cap - done))]
                        for job, rdir, c, res in crash.pmap(one, wave):
                            out = judge(job, rdir, c, res)
                            ctx.rm(rdir)
                            done += 1
                            if out is None:
                                continue
                            sched, order = out
                            seen.add(order)
                            decs = res.decisions
                            for i in range(len(job[0]), len(decs)):
                                for alt in decs[i]["enabled"]:
                                    if alt != decs[i]["chosen"]:
                                        stack.append(list(sched[:i]) + [alt])
                    if stack:
                        # not exhausted within the cap: random schedules on top
                        jobs = [([], f"rand:{ctx.seed * 131 + size + off + i}") for i in range(nrand)]
                        for job, rdir, c, res in crash.pmap(one, jobs):
                            out = judge(job, rdir, c, res)
                            ctx.rm(rdir)
                            if out:
                                seen.add(out[1])
                        ctx.count("midcall_capped_enumerations")
                    else:
                        ctx.count("midcall_complete_enumerations")
                    ctx.count("midcall_schedules", done)
                    ctx.count("midcall_distinct_interleavings", len(seen))
        ctx.rm(tdir)
    ctx.rm(work)
    ctx.extra["midcall_outcomes"] = {k: sorted(v) for k, v in outcomes.items()}
