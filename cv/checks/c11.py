"""C11 — index metadata is returned exactly as supplied, with truthful defaults."""
from .. import drv, ev, gen, hist, ref
from ..model import Model, entry_diffs


def run(ctx):
    rng = ctx.rng
    modes = drv.QUICK_MODES if ctx.quick else drv.ALL_MODES
    n = 6000 if ctx.quick else 60000
    ctx.rule = ("case = (write entry point, mode, key, time class, metadata shape, raw metadata, declared size?); "
                "the entry is read back through metadata*, list_sync and index::find* (sync and async) and every "
                "field is compared structurally; defaults: time within the commit's wall-clock window in ms, "
                "size = bytes written, metadata = null. distinct = distinct (entry point, mode, time class, "
                "metadata kind, raw?, size declared?) tuples")
    ctx.assumptions = ["JSON numbers are integers within i64/u64 or decimals with <= 6 significant digits",
                       "driver and library share the machine's wall clock"]
    eps = ["write", "write_algo", "writer_opts", "writer_create", "index_insert"]
    cache = ctx.new_cache()
    used = set()
    batchcases = []
    for i in range(n):
        ep = eps[i % len(eps)]
        mode = modes[(i // len(eps)) % len(modes)]
        key = rng.choice(gen.HOSTILE_KEYS) if rng.random() < 0.4 else gen.rand_unicode_key(rng)
        if key in used:
            key = key + f"#{i}"
        used.add(key)
        data = gen.data(rng, rng.choice([0, 1, 5, 100, 4097]))
        opts = {}
        tclass = "default"
        mkind = "default"
        if ep in ("writer_opts", "index_insert"):
            if rng.random() < 0.7:
                t = gen.time_value(rng)
                opts["time"] = str(t)
                tclass = "bits%d" % t.bit_length()
            r = rng.random()
            if r < 0.6:
                md = gen.json_value(rng, maxdepth=rng.choice([1, 2, 4]))
                opts["metadata"] = md
                mkind = type(md).__name__
            elif r < 0.7:
                d = rng.choice([10, 50, 100])
                opts["metadata"] = gen.nested(d, kind=rng.choice(["array", "object", "mixed"]))
                mkind = f"nested{d}"
            if rng.random() < 0.5:
                opts["raw_metadata"] = gen.raw_metadata(rng).hex()
            if rng.random() < 0.4:
                opts["size"] = len(data) if ep == "writer_opts" else rng.choice([0, 1, 2 ** 32, 2 ** 63])
            if rng.random() < 0.3:
                opts["algo"] = rng.choice(gen.ALGOS[:4])
        algo = opts.get("algo", "sha256")
        if ep == "write":
            req = {"op": "write", "cache": cache, "key": key, "data": ctx.data(data)}
        elif ep == "write_algo":
            algo = rng.choice(gen.ALGOS[:4])
            req = {"op": "write", "cache": cache, "key": key, "data": ctx.data(data), "algo": algo}
        elif ep == "writer_opts":
            req = {"op": "writer", "cache": cache, "key": key, "opts": opts, "chunks": [ctx.data(data)]}
            if "time" not in opts and i % 4 == 0:
                req["pause_before_commit_ms"] = 6
        elif ep == "writer_create":
            req = {"op": "writer", "cache": cache, "key": key, "create": True, "chunks": [ctx.data(data)]}
            if i % 4 == 0:
                req["pause_before_commit_ms"] = 6
        else:
            opts["sri"] = ref.sri(algo, data)
            req = {"op": "index_insert", "cache": cache, "key": key, "opts": opts}
        if req["op"] == "writer" and len(data) > 1 and rng.random() < 0.35:
            # the data arrives in pieces, through write() calls or as one write_vectored gather list: the recorded size
            # is the number of bytes written whichever way they came
            cut = rng.randrange(1, len(data))
            req["chunks"] = [ctx.data(data[:cut]), ctx.data(data[cut:])]
            if rng.random() < 0.6:
                req["vectored"] = True
        case = {"ep": ep, "mode": mode, "key": key, "data": data, "opts": opts, "algo": algo, "req": req,
                "tclass": tclass, "mkind": mkind}
        if ep in ("writer_opts", "index_insert") and rng.random() < 0.3:
            # the same key and the same bytes again, with different attachments: the later ones must win
            o2 = {k: v for k, v in opts.items() if k in ("algo", "sri", "size")}
            o2["time"] = str(gen.time_value(rng))
            if rng.random() < 0.7:
                o2["metadata"] = gen.json_value(rng, maxdepth=2)
            if rng.random() < 0.5:
                o2["raw_metadata"] = gen.raw_metadata(rng)[:50].hex()
            req2 = dict(req, opts=o2)
            case["pre_req"] = req
            case["req"], case["opts"] = req2, o2
            case["tclass"], case["mkind"] = "rewrite", "rewrite-same-bytes"
        batchcases.append(case)
    # execute grouped by mode, 100 at a time, then read back
    for g in range(0, len(batchcases), 100):
        group = batchcases[g:g + 100]
        by_mode = {}
        for c in group:
            by_mode.setdefault(c["mode"], []).append(c)
        for mode, cs in by_mode.items():
            pre = [c["pre_req"] for c in cs if "pre_req" in c]
            if pre:
                ctx.batch(mode, pre)
                ctx.count("rewrites_same_key_same_bytes", len(pre))
            for c, r in zip(cs, ctx.batch(mode, [c["req"] for c in cs])):
                c["wresp"] = r
        # listing once per group
        # the listing walks the whole index (up to 60 000 entries in the thorough tier): its deadline grows with the
        # cache, and a listing that did not ANSWER is not an empty listing (that confusion produced 100 false
        # "entry missing" reports in one thorough run on a machine running five other sweeps, see DESIGN section 11)
        lresp = ctx.call("sync@astd", {"op": "list", "cache": cache}, timeout=60.0 + 0.02 * g)
        listed = None
        if ev.is_ok(lresp):
            listed = {}
            for e in lresp["ok"]["items"]:
                if "err" not in e:
                    listed[e["key"]] = e
        elif "err" in lresp or ev.is_panic(lresp):
            ctx.violation(f"list|sync@astd|{ev.variant(lresp)}", f"list_sync over {g + len(group)} entries failed: {ev.brief(lresp)}",
                          {"steps": [["sync@astd", {"op": "list", "cache": cache}]]})
        else:
            ctx.inconc(f"list_sync over {g + len(group)} entries did not answer in time ({ev.brief(lresp)}); the listing of this "
                       f"group of {len(group)} entries was not judged")
        for mode, cs in by_mode.items():
            other = modes[(modes.index(mode) + 1) % len(modes)]
            reqs, owners = [], []
            for c in cs:
                for m, op in ((mode, "metadata"), (other, "index_find")):
                    reqs.append((m, {"op": op, "cache": cache, "key": c["key"]}))
                    owners.append((c, m, op))
            # execute per mode preserving association
            for m in {x[0] for x in reqs}:
                idx = [i for i, x in enumerate(reqs) if x[0] == m]
                rs = ctx.batch(m, [reqs[i][1] for i in idx])
                for i, r in zip(idx, rs):
                    judge(ctx, owners[i][0], owners[i][1], owners[i][2], r)
            if listed is not None:
                for c in cs:
                    judge_list(ctx, c, listed)
    # ---- separately identified probe: metadata nested deeper than serde_json's default recursion limit
    for mode in modes:
        for depth in (127, 128, 200):
            key = f"deep-{depth}-{mode}"
            md = gen.nested(depth, kind="array")
            req = {"op": "writer", "cache": cache, "key": key, "opts": {"metadata": md, "time": "1"},
                   "chunks": [ctx.data(b"x")]}
            w = ctx.call(mode, req)
            r = ctx.call(mode, {"op": "metadata", "cache": cache, "key": key})
            ctx.case(distinct_key=("deep", depth, mode))
            if ev.is_ok(w) and ev.is_ok(r):
                if r["ok"]["entry"] is None:
                    ctx.violation(f"metadata-nesting>127|{mode}|commit-Ok-lookup-None",
                                  f"writer with metadata nested {depth} deep committed Ok in {mode} but the entry is "
                                  f"never found again", {"steps": [[mode, req], [mode, {"op": "metadata", "cache": cache, "key": key}]]})
                else:
                    exp = {"key": key, "integrity": ref.sri("sha256", b"x"), "time": 1, "size": 1, "metadata": md,
                           "raw_metadata": None}
                    d = entry_diffs(r["ok"]["entry"], exp)
                    if d:
                        ctx.violation(f"metadata-nesting|{mode}|diff", f"depth {depth}: {d[0]}", {"steps": [[mode, req]]})
            elif ev.is_panic(w) or ev.is_panic(r):
                ctx.violation(f"metadata-nesting|{mode}|panic", f"depth {depth}: {ev.brief(w)} / {ev.brief(r)}",
                              {"steps": [[mode, req]]})
            # an Err at commit time is acceptable: nothing was promised to be stored
    ctx.count("entries", n)
    same_shape_rewrites(ctx, rng, modes)


def same_shape_rewrites(ctx, rng, modes):
    """A key is written, looked up, deleted in bulk (remove_fully, clear, or its bucket file cleaned away from outside)
    and written again by the SAME process with a value of exactly the same shape - same lengths of data, metadata text,
    raw metadata and time digits, so that the new bucket has the byte length of the old one. Every field read back
    must be the second writer's. (Lengths, names and modification times that happen to coincide are all that a
    process-wide memo of parsed buckets could key on.)"""
    import string
    rounds = 4 if ctx.quick else 40
    for mode in modes:
        for removal in ("remove_fully", "clear", "external-unlink"):
            for rnd in range(rounds):
                cache = ctx.new_cache()
                key = rng.choice(["k", "kéy 中", gen.rand_unicode_key(rng)])
                L, R = rng.choice([0, 3, 100]), rng.choice([0, 1, 40])
                ep = rng.choice(["writer_opts", "index_insert"])

                def value():
                    data = rng.randbytes(L) if L else b""
                    o = {"time": str(rng.randrange(10 ** 12, 10 ** 13)),
                         "metadata": {"s": "".join(rng.choice(string.ascii_letters) for _ in range(12)), "n": rng.randrange(1000, 10000)}}
                    if R:
                        o["raw_metadata"] = rng.randbytes(R).hex()
                    if ep == "index_insert":
                        o["sri"] = ref.sri("sha256", data)
                        o["size"] = rng.randrange(100, 1000)
                        return data, o, {"op": "index_insert", "cache": cache, "key": key, "opts": o}
                    return data, o, {"op": "writer", "cache": cache, "key": key, "opts": o, "chunks": [ctx.data(data)]}

                d1, o1, q1 = value()
                d2, o2, q2 = value()
                look = rng.choice(["metadata", "index_find"])
                if removal == "external-unlink":
                    rm = {"op": "rmtree", "path": ref.bucket_path(cache, key)}
                elif removal == "clear":
                    rm = {"op": "clear", "cache": cache}
                else:
                    rm = {"op": "remove_fully", "cache": cache, "key": key}
                # list_sync is the one listing API: in the async modes it is called, synchronously, in the same process
                ls = {"op": "list", "cache": cache, "mode": "sync"}
                script = [q1, {"op": look, "cache": cache, "key": key}, ls, rm, q2,
                          {"op": look, "cache": cache, "key": key}, ls,
                          {"op": "metadata" if look == "index_find" else "index_find", "cache": cache, "key": key}]
                rs = ctx.batch(mode, script)
                ctx.count("same_shape_rewrites")
                ctx.case(distinct_key=("same-shape", mode, removal, ep, look, L, R))
                det = {"steps": [[mode, q] for q in script], "mode": mode}
                if not all(ev.is_ok(r) for r in rs):
                    bad = next(i for i, r in enumerate(rs) if not ev.is_ok(r))
                    if ev.is_panic(rs[bad]) or (bad in (0, 4) and "err" in rs[bad]):
                        ctx.violation(f"same-shape|{mode}|{removal}|step-{script[bad]['op']}-{ev.variant(rs[bad])}",
                                      f"same-shape rewrite after {removal} in {mode}: {script[bad]['op']} gave {ev.brief(rs[bad])}", det)
                    else:
                        ctx.inconc(f"same-shape rewrite: step {script[bad]['op']} failed in {mode}: {ev.brief(rs[bad])}")
                    continue

                def exp(d, o):
                    return {"key": key, "integrity": o.get("sri") or ref.sri("sha256", d), "time": int(o["time"]),
                            "size": o.get("size", len(d)), "metadata": o["metadata"],
                            "raw_metadata": bytes.fromhex(o["raw_metadata"]) if "raw_metadata" in o else None}

                for idx, (d, o, when) in ((1, (d1, o1, "first write")), (5, (d2, o2, "second write")), (7, (d2, o2, "second write"))):
                    df = entry_diffs(rs[idx]["ok"]["entry"], exp(d, o))
                    if df:
                        ctx.violation(f"same-shape|{mode}|{removal}|{script[idx]['op']}|{sigclass(df[0])}",
                                      f"{ep} in {mode}, {look}, {removal}, then a same-shape {ep} of other values: "
                                      f"{script[idx]['op']} after the {when}: {df[0]}", dict(det, diffs=df))
                        break
                else:
                    for idx, (d, o) in ((2, (d1, o1)), (6, (d2, o2))):
                        items = [e for e in rs[idx]["ok"]["items"] if "err" not in e and e.get("key") == key]
                        df = entry_diffs(items[0] if len(items) == 1 else None, exp(d, o))
                        if df:
                            ctx.violation(f"same-shape|{mode}|{removal}|list|{sigclass(df[0])}",
                                          f"{ep} in {mode}, {look}, {removal}, then a same-shape {ep}: the listing "
                                          f"({len(items)} entries for the key) says: {df[0]}", dict(det, diffs=df))
                            break
                ctx.rm(cache)


def expected_entry(c):
    o = c["opts"]
    w = c["wresp"]
    win = hist.window(w)
    if win and ev.is_ok(w) and "commit_w0" in w["ok"]:
        # the driver noted the wall clock right before calling commit(): the default time is the time of the commit
        win = (int(w["ok"]["commit_w0"]), win[1])
    sri = o.get("sri") or (w["ok"].get("sri") if ev.is_ok(w) else None)
    size = o.get("size")
    if size is None:
        size = 0 if c["ep"] == "index_insert" else len(c["data"])
    return {"key": c["key"], "integrity": sri, "time": int(o["time"]) if "time" in o else None, "window": win,
            "size": size, "metadata": o.get("metadata"),
            "raw_metadata": bytes.fromhex(o["raw_metadata"]) if "raw_metadata" in o else None}


def dkey(c):
    return (c["ep"], c["mode"], c["tclass"], c["mkind"], "raw" in str(c["opts"].keys()), "size" in c["opts"])


def sigclass(d):
    return d.split(" ")[0] if not d.startswith("default time") else "default-time"


def judge(ctx, c, mode, op, r):
    w = c["wresp"]
    ctx.count(f"lookups[{op}@{mode}]")
    ctx.case(distinct_key=dkey(c), sample={"entry_point": c["ep"], "mode": c["mode"], "key": c["key"],
                                           "opts": {k: (v if k != "metadata" else str(v)[:60]) for k, v in c["opts"].items()},
                                           "read_via": op, "read_mode": mode})
    if not ev.is_ok(w):
        ctx.violation(f"{c['ep']}|{c['mode']}|write-{ev.variant(w)}",
                      f"{c['ep']} with options {str(c['opts'])[:150]} failed: {ev.brief(w)}",
                      {"steps": [[c["mode"], c["req"]]]})
        return
    if not ev.is_ok(r):
        ctx.violation(f"{c['ep']}|{op}@{mode}|lookup-{ev.variant(r)}", f"{op} failed: {ev.brief(r)}",
                      {"steps": [[c["mode"], c["req"]], [mode, {"op": op, "key": c["key"]}]]})
        return
    exp = expected_entry(c)
    d = entry_diffs(r["ok"]["entry"], exp)
    if d:
        ctx.violation(f"{c['ep']}|{c['mode']}|{op}|{sigclass(d[0])}|{c['mkind'] if 'metadata' in d[0] else ''}",
                      f"{c['ep']} in {c['mode']} then {op} in {mode}: {d[0]}",
                      {"steps": [[c["mode"], c["req"]], [mode, {"op": op, "cache": c["req"]["cache"], "key": c["key"]}]],
                       "diffs": d, "window": exp.get("window")})
    if exp["time"] is None and ev.is_ok(r) and r["ok"]["entry"]:
        lo, hi = exp["window"]
        ctx.extra["max_default_time_window_ms"] = max(ctx.extra.get("max_default_time_window_ms", 0), hi - lo)


def judge_list(ctx, c, listed):
    if not ev.is_ok(c["wresp"]):
        return
    ctx.count("lookups[list]")
    exp = expected_entry(c)
    d = entry_diffs(listed.get(c["key"]), exp)
    if d:
        ctx.violation(f"{c['ep']}|{c['mode']}|list|{sigclass(d[0])}|{c['mkind'] if 'metadata' in d[0] else ''}",
                      f"{c['ep']} in {c['mode']} then list_sync: {d[0]}",
                      {"steps": [[c["mode"], c["req"]], ["sync@astd", {"op": "list", "cache": c["req"]["cache"]}]],
                       "diffs": d})
