"""C13 — a failing filesystem operation surfaces as an error and never corrupts the cache.

Fault enumeration: for every visible system call of every operation, every
errno of its class (and short-write-then-ENOSPC for writes) is injected by the
ptrace supervisor; the call's result, the cache state afterwards and a
fault-free re-execution are judged."""
import os

from .. import crash, drv, ev, gen, ref, sysm
from ..model import entry_diffs

E = sysm.ERRNO
BY = [("by-1", b"bystander one"), ("by-2", b"STORED DATA")]   # by-2 shares the address of the victim's data


def errnos_for(ev_):
    n = ev_["name"]
    if n in ("open", "openat", "openat2", "creat"):
        out = [E["EACCES"], E["EMFILE"], E["EIO"]]
        if ev_.get("flags", 0) & sysm.O_CREAT:
            out.append(E["ENOSPC"])
        return out
    if n in ("write", "pwrite64", "writev", "pwritev"):
        return [E["ENOSPC"], E["EIO"], "short"]
    if n in ("read", "pread64", "readv", "preadv", "getdents64", "getdents"):
        return [E["EIO"]]
    if n in ("rename", "renameat", "renameat2"):
        return [E["ENOSPC"], E["EACCES"], E["EIO"], E["ENOENT"]]
    if n in ("link", "linkat", "mkdir", "mkdirat", "symlink", "symlinkat"):
        return [E["ENOSPC"], E["EACCES"], E["EIO"]]
    if n in ("unlink", "unlinkat", "rmdir"):
        return [E["EACCES"], E["EIO"]]
    if n in ("stat", "lstat", "statx", "newfstatat", "fstat", "access", "faccessat", "faccessat2", "readlink", "readlinkat"):
        return [E["EACCES"], E["EIO"]]
    if n == "fallocate":
        return [E["ENOSPC"], E["EIO"]]
    if n == "mmap":
        return [E["ENOMEM"], E["EACCES"]]
    if n in ("ftruncate", "truncate", "fsync", "fdatasync"):
        return [E["EIO"]]
    if n in ("copy_file_range", "sendfile"):
        return [E["EIO"], E["ENOSPC"]]
    return []


def scenarios(ctx):
    stored = b"STORED DATA"
    new = b"fresh data to write"
    d5k = bytes(range(256)) * 20
    sri_stored = ref.sri("sha256", stored)
    warm = [{"op": "writer", "cache": "<C>", "key": k, "opts": {"time": "42"}, "chunks": [ctx.data(d)]} for k, d in BY]
    have = warm + [{"op": "writer", "cache": "<C>", "key": "k", "opts": {"time": "7", "metadata": {"v": 1}},
                    "chunks": [ctx.data(stored)]}]
    old_k = ({"key": "k", "integrity": sri_stored, "time": 7, "size": len(stored), "metadata": {"v": 1}, "raw_metadata": None}, stored)
    out = []

    def S(name, kind, req, prep, **meta):
        for mode in (drv.QUICK_MODES if ctx.quick else drv.ALL_MODES):
            if name == "list" and mode.startswith("async"):
                continue                # list_sync is the only listing entry point
            q = dict(req)
            if name == "writer-declared-mmap" and mode.startswith("async"):
                q.pop("key", None)      # async keyed writers never take the mmap path
                meta = dict(meta, key=None, newent=None)
            out.append(crash.Scenario(name, mode, q, prep, dict(meta, kind=kind)))

    def newent(data, t=1000, md=None):
        return ({"key": "k", "integrity": ref.sri("sha256", data), "time": t, "size": len(data), "metadata": md, "raw_metadata": None}, data)

    S("write-warm", "write", {"op": "writer", "cache": "<C>", "key": "k", "opts": {"time": "1000"}, "chunks": [ctx.data(new)]},
      have, key="k", old=old_k, newent=newent(new), data=new)
    S("write-cold", "write", {"op": "writer", "cache": "<C>", "key": "k", "opts": {"time": "1000"}, "chunks": [ctx.data(new)]},
      [], key="k", old=None, newent=newent(new), data=new, cold=True)
    S("write_hash", "write", {"op": "write_hash", "cache": "<C>", "data": ctx.data(new)}, warm, key=None, data=new)
    # storing bytes again that other keys already rely on: a fault must not cost them their content
    S("rewrite-existing-content", "write", {"op": "writer", "cache": "<C>", "key": "k", "opts": {"time": "1000"},
                                            "chunks": [ctx.data(stored)]},
      have, key="k", old=old_k, newent=newent(stored), data=stored)
    S("writer-declared-mmap", "write", {"op": "writer", "cache": "<C>", "key": "k", "opts": {"time": "1000", "size": len(d5k)},
                                        "chunks": [ctx.data(d5k[:1000]), ctx.data(d5k[1000:])]},
      have, key="k", old=old_k, newent=newent(d5k), data=d5k)
    S("writer-declared-short", "write-rejected", {"op": "writer", "cache": "<C>", "key": "k", "opts": {"time": "1000", "size": len(d5k)},
                                                  "chunks": [ctx.data(d5k[:1000])]},
      have, key="k", old=old_k, newent=None, data=d5k[:1000])
    S("writer-streamed", "write", {"op": "writer", "cache": "<C>", "key": "k", "opts": {"time": "1000"},
                                   "chunks": [ctx.data(d5k[:100]), ctx.data(d5k[100:3000]), ctx.data(d5k[3000:])], "flush_after": [1]},
      have, key="k", old=old_k, newent=newent(d5k), data=d5k)
    # a caller that does not give up its writer when a write fails: it offers the same bytes once more and goes on, or it
    # commits what the writer has accepted so far
    S("writer-streamed-retrying-caller", "write", {"op": "writer", "cache": "<C>", "key": "k", "opts": {"time": "1000"},
                                                   "chunks": [ctx.data(d5k[:100]), ctx.data(d5k[100:3000]), ctx.data(d5k[3000:])],
                                                   "after_write_error": "retry"},
      have, key="k", old=old_k, newent=newent(d5k), data=d5k)
    S("writer-streamed-commit-after-error", "write-prefix", {"op": "writer", "cache": "<C>", "key": "k", "opts": {"time": "1000"},
                                                            "chunks": [ctx.data(d5k[:100]), ctx.data(d5k[100:3000]), ctx.data(d5k[3000:])],
                                                            "after_write_error": "commit"},
      have, key="k", old=old_k, newent=newent(d5k), data=d5k)
    S("read", "read", {"op": "read", "cache": "<C>", "key": "k"}, have, key="k", old=old_k, data=stored)
    S("read_hash", "read", {"op": "read_hash", "cache": "<C>", "sri": sri_stored}, have, key="k", old=old_k, data=stored)
    S("reader-check", "read", {"op": "reader", "cache": "<C>", "key": "k", "bufs": [4]}, have, key="k", old=old_k, data=stored)
    S("copy", "copy", {"op": "copy", "cache": "<C>", "key": "k", "to": "<DEST>"}, have, key="k", old=old_k, data=stored)
    S("metadata", "metadata", {"op": "metadata", "cache": "<C>", "key": "k"}, have, key="k", old=old_k)
    # a bucket far larger than one read(2) chunk: 150 older records of the key, then the current one
    longhist = warm + [{"op": "writer", "cache": "<C>", "key": "k", "opts": {"time": str(100 + g), "metadata": {"gen": g, "pad": "h" * 150}},
                        "chunks": [ctx.data(b"generation %d" % g)]} for g in range(150)] + [have[-1]]
    S("metadata-long-bucket", "metadata", {"op": "metadata", "cache": "<C>", "key": "k"}, longhist, key="k", old=old_k)
    S("read-long-bucket", "read", {"op": "read", "cache": "<C>", "key": "k"}, longhist, key="k", old=old_k, data=stored)
    # a key whose bucket is well above one block - through a single record with 6 KiB of metadata, so that the size does
    # not depend on how an implementation treats long histories
    bigmd = {"v": 1, "pad": "p" * 6000}
    havebig = warm + [{"op": "writer", "cache": "<C>", "key": "k", "opts": {"time": "7", "metadata": bigmd}, "chunks": [ctx.data(stored)]}]
    old_big = ({"key": "k", "integrity": sri_stored, "time": 7, "size": len(stored), "metadata": bigmd, "raw_metadata": None}, stored)
    S("write-over-big-record", "write", {"op": "writer", "cache": "<C>", "key": "k", "opts": {"time": "1000"}, "chunks": [ctx.data(new)]},
      havebig, key="k", old=old_big, newent=newent(new), data=new)
    S("remove-over-big-record", "remove", {"op": "remove", "cache": "<C>", "key": "k"}, havebig, key="k", old=old_big)
    S("list", "list", {"op": "list", "cache": "<C>"}, have, key="k", old=old_k)
    S("remove", "remove", {"op": "remove", "cache": "<C>", "key": "k"}, have, key="k", old=old_k)
    S("remove_hash", "remove_hash", {"op": "remove_hash", "cache": "<C>", "sri": ref.sri("sha256", b"bystander one")},
      have, key="k", old=old_k)
    # remove_fully of a key whose content nobody else uses
    own = b"content only this key uses"
    have2 = warm + [{"op": "writer", "cache": "<C>", "key": "k", "opts": {"time": "7"}, "chunks": [ctx.data(own)]}]
    old2 = ({"key": "k", "integrity": ref.sri("sha256", own), "time": 7, "size": len(own), "metadata": None, "raw_metadata": None}, own)
    S("remove_fully", "remove_fully", {"op": "remove_fully", "cache": "<C>", "key": "k"}, have2, key="k", old=old2)
    return out


def run(ctx):
    ctx.rule = ("operation in {keyed write warm/cold, write_hash, declared-size (mmap) writer, declared-size writer "
                "given fewer bytes, streamed writer (also with a caller that retries a failed write on the same writer, or commits "
                "after it), read, read_hash, Reader+check, copy, metadata, list, remove, "
                "remove_hash, remove_fully} x modes. A traced baseline lists the visible system calls; for EVERY such "
                "call every errno of its class is injected (open: EACCES/EMFILE/EIO/ENOSPC, write: ENOSPC/EIO/short "
                "write of half the bytes then ENOSPC, read/getdents: EIO, rename/link/mkdir: ENOSPC/EACCES/EIO, unlink: "
                "EACCES/EIO, stat family: EACCES/EIO, fallocate: ENOSPC/EIO, mmap: ENOMEM/EACCES, ...). Judged: no "
                "panic/hang, truthful Ok, old-or-new after a failed write, bystanders, content tree, bucket grammar, "
                "and a fault-free re-execution of the same call. Write operations also get consecutive pairs (call n fails, and so "
                "does the first, second or third call the code then makes). Thorough adds seeded fault pairs. distinct = "
                "(operation, mode, call index, syscall, errno)")
    ctx.assumptions = ["close() is not injected (Rust ignores its result)", "ENOENT is a legitimate 'absent', not a fault",
                       "a supervisor watchdog firing is a hang only if it reproduces three times"]
    ctx.exhaustive = True
    scs = scenarios(ctx)
    if ctx.quick:
        # all operations in sync@astd; a rotating third of them in each async mode
        keep = []
        names = []
        for s in scs:
            if s.name not in names:
                names.append(s.name)
        for s in scs:
            i = names.index(s.name)
            if s.mode == "sync@astd" or (s.mode == "async@astd" and i % 3 == ctx.seed % 3) or \
                    (s.mode == "async@tok" and i % 3 == (ctx.seed + 1) % 3):
                keep.append(s)
        scs = keep
    syscalls_reached = set()
    for si, sc in enumerate(scs):
        work = ctx.new_dir(f"work{si}")
        tdir = os.path.join(work, f"t{si}")
        os.makedirs(tdir)
        crash.build_template(ctx, sc, tdir)
        bdir = os.path.join(work, f"b{si}")
        cache = crash.instantiate(tdir, bdir)
        extra = {"<DEST>": os.path.join(bdir, "dest.bin")}
        base = sysm.run([crash.oneshot_cmd(sc, cache, extra)], [bdir], work, timeout=60)
        resp = base.responses(0)
        want_base = "SizeMismatch" if sc.meta["kind"] == "write-rejected" else "Ok"
        if not resp or ev.variant(resp[0]) != want_base or not base.final:
            ctx.inconc(f"baseline of {sc.name}@{sc.mode} gave {resp[:1]}")
            continue
        vis = base.visible
        bp = ref.check_content_tree(cache)
        if bp:
            ctx.violation(f"{sc.name}|{sc.mode}|no-fault|content-tree", f"without any fault {sc.name} leaves: {bp[0]}",
                          {"steps": [["sync@astd", q] for q in sc.prep] + [[sc.mode, sc.req]]})
        ctx.rm(bdir)
        jobs = []
        for e in vis:
            for en in errnos_for(e):
                jobs.append((e["n"], e["name"], en, e.get("count", 0)))
            syscalls_reached.add(e["name"])
        if sc.meta["kind"].startswith("write") and (sc.mode == "sync@astd" or not ctx.quick):
            # the recovery path itself fails: call n fails and so does whatever the code does next (call n+1 of THAT run)
            for e in vis:
                ens = [z for z in errnos_for(e) if z != "short"]
                if ens:
                    jobs.append(((e["n"], e["n"] + 1), f"{e['name']}+next", (ens[0], E["ENOSPC"] if e["n"] % 2 else E["EIO"]), 0))
        if not ctx.quick:
            # seeded fault pairs
            rr = ctx.rng
            for _ in range(min(40, len(vis) * 2)):
                a, b = sorted(rr.sample(range(len(vis)), 2)) if len(vis) >= 2 else (0, 0)
                ea, eb = errnos_for(vis[a]), errnos_for(vis[b])
                if ea and eb and a != b:
                    x, y = rr.choice([z for z in ea if z != "short"] or [5]), rr.choice([z for z in eb if z != "short"] or [5])
                    jobs.append(((vis[a]["n"], vis[b]["n"]), f"{vis[a]['name']}+{vis[b]['name']}", (x, y), 0))
        # the seeded / consecutive pairs may repeat under different labels: one run (and one run directory) per
        # (call indices, errnos)
        jobs = list({(j[0], str(j[2])): j for j in jobs}.values())
        ctx.count(f"visible_calls[{sc.name}@{sc.mode}]", len(vis))

        def one(job, sc=sc, si=si, tdir=tdir):
            n, name, en, count = job
            rdir = os.path.join(work, f"r{si}-{n}-{en}".replace(" ", "").replace("(", "").replace(")", "").replace(",", "_"))
            cache = crash.instantiate(tdir, rdir)
            extra = {"<DEST>": os.path.join(rdir, "dest.bin")}
            kw = {}
            if isinstance(n, tuple):
                kw["inject"] = [(n[0], en[0]), (n[1], en[1])]
            elif en == "short":
                kw["short"] = [(n, max(1, count // 2) if count > 1 else 0, E["ENOSPC"])]
            else:
                kw["inject"] = [(n, en)]
            tries = 0
            while True:
                res = sysm.run([crash.oneshot_cmd(sc, cache, extra)], [rdir], work, timeout=20, **kw)
                tries += 1
                if not res.timed_out or tries >= 3:
                    break
                ctx.rm(rdir)
                cache = crash.instantiate(tdir, rdir)
            return (job, rdir, cache, res, tries, extra)

        base_names = [e["name"] for e in vis]
        second = []

        def handle(results, collect, sc=sc, base_names=base_names):
            for (job, rdir, cache, res, tries, extra) in results:
                n, name, en, _count = job
                if collect is not None and not isinstance(n, tuple) and en != "short" and sc.meta["kind"].startswith("write") \
                        and (sc.mode == "sync@astd" or not ctx.quick) and not res.timed_out:
                    # did the fault send the code down a path the fault-free run never takes (a fallback, a clean-up)?
                    # Then every call of that path gets its own fault too: the recovery must not leave damage either
                    later = [e for e in res.visible if e["n"] > n]
                    if later and [e["name"] for e in later] != base_names[n:]:
                        for e2 in later[:14]:
                            ens2 = [z for z in errnos_for(e2) if z != "short"]
                            if ens2:
                                collect.append(((n, e2["n"]), f"{name}+{e2['name']}", (en, ens2[0]), 0))
                injected = [e for e in res.events if e.get("injected")]
                ctx.count("injected_runs")
                ctx.count(f"inject[{name}:{en}]")
                ctx.case(distinct_key=(sc.name, sc.mode, n, name, str(en)),
                         sample={"operation": sc.name, "mode": sc.mode, "call": n, "syscall": name, "errno": en,
                                 "result": ev.variant((res.responses(0) or [{}])[0])}
                         if ctx.counters["evaluations"] % 97 == 0 else None)
                sig = f"{sc.name}|{sc.mode}|{name}:{en}"
                det = {"operation": sc.name, "mode": sc.mode, "call": n, "syscall": name, "errno": en,
                       "steps": [["sync@astd", q] for q in sc.prep] + [[sc.mode, sc.req]], "sysmon_argv": res.argv[:14],
                       "injected_events": [f"{e['name']} {e['paths'] or e['fd_path']}" for e in injected][:3]}
                if res.timed_out:
                    ctx.violation(sig + "|hang", f"{sc.name} in {sc.mode} did not terminate (3 runs x 20 s) when {name} fails with {en}", det)
                    ctx.rm(rdir)
                    continue
                rs = res.responses(0)
                if not rs:
                    ctx.violation(sig + "|died", f"{sc.name} in {sc.mode}: process died (exit {res.final and res.final['exit']}) when {name} "
                                  f"fails with {en}: {res.stderr[-300:]}", det)
                    ctx.rm(rdir)
                    continue
                r = rs[0]
                det["response"] = r
                if not injected and en != "short":
                    ctx.count("fault_point_not_reached")
                if ev.is_panic(r):
                    ctx.violation(sig + "|panic", f"{sc.name} in {sc.mode} panicked when {name} fails with {en}: {ev.brief(r)}", det)
                else:
                    ctx.count("surfaced_as_Err" if not ev.is_ok(r) else "truthful_Ok_candidates")
                    judge(ctx, sc, cache, r, sig, det, extra, short=(en == "short"), name=name)
                ctx.rm(rdir)

        handle(crash.pmap(one, jobs), second)
        known_jobs = {(j[0], str(j[2])) for j in jobs}
        second = list({(j[0], str(j[2])): j for j in second if (j[0], str(j[2])) not in known_jobs}.values())
        if second:
            ctx.count("second_level_fault_jobs", len(second))
            handle(crash.pmap(one, second), None)
        ctx.rm(work)
    ctx.extra["distinct_syscalls_reached"] = sorted(syscalls_reached)
    ctx.extra["scenarios"] = [f"{s.name}@{s.mode}" for s in scs]


def lookup_state(ctx, cache, key):
    md = ctx.call("sync@astd", {"op": "metadata", "cache": cache, "key": key})
    rd = ctx.call("async@tok", {"op": "read", "cache": cache, "key": key})
    return md, rd


def matches(md, rd, exp):
    if not ev.is_ok(md):
        return False
    o = md["ok"]["entry"]
    if exp is None:
        return o is None and ev.variant(rd) == "EntryNotFound"
    if o is None or entry_diffs(o, exp[0]):
        return False
    return ev.is_ok(rd) and drv.data_bytes(rd["ok"]["data"]) == exp[1]


def judge(ctx, sc, cache, r, sig, det, extra, short, name):
    kind = sc.meta["kind"]
    key = sc.meta.get("key")
    old = sc.meta.get("old")
    ok = ev.is_ok(r)
    retry_needed = not ok
    # ---- truthfulness of the faulted call
    if kind == "write":
        data = sc.meta["data"]
        newent = sc.meta.get("newent")
        if ok:
            sri = r["ok"].get("sri")
            rh = ctx.call("sync@astd", {"op": "read_hash", "cache": cache, "sri": sri})
            if sri != ref.sri("sha256", data) or not ev.is_ok(rh) or drv.data_bytes(rh["ok"]["data"]) != data:
                ctx.violation(sig + "|Ok-but-not-retrievable", f"{sc.name} reported success under the fault but the data is not "
                              f"retrievable by address: {ev.brief(rh)}", det)
            if key and newent:
                md, rd = lookup_state(ctx, cache, key)
                if not matches(md, rd, newent):
                    ctx.violation(sig + "|Ok-but-key-not-new", f"{sc.name} reported success but the key does not read the new "
                                  f"entry: {ev.brief(md)} / {ev.brief(rd)}", det)
        elif key and newent:
            md, rd = lookup_state(ctx, cache, key)
            if not (matches(md, rd, old) or matches(md, rd, newent)):
                ctx.violation(sig + "|Err-neither-old-nor-new", f"{sc.name} failed ({ev.variant(r)}) and the key is neither the old nor "
                              f"the new entry: {ev.brief(md)} / {ev.brief(rd)}", det)
    elif kind == "write-prefix":
        # the caller committed after a failed write: what was stored is whatever the writer had accepted - a prefix of
        # the data - and it must be exactly what the returned address names
        data = sc.meta["data"]
        if ok:
            sri = r["ok"].get("sri")
            rh = ctx.call("sync@astd", {"op": "read_hash", "cache": cache, "sri": sri})
            got = drv.data_bytes(rh["ok"]["data"]) if ev.is_ok(rh) else None
            if got is None or ref.sri("sha256", got) != sri or not data.startswith(got):
                ctx.violation(sig + "|Ok-but-not-retrievable", f"{sc.name}: commit after a failed write reported success but the "
                              f"returned address does not read back as a prefix of the data: {ev.brief(rh)}", det)
            else:
                md, rd = lookup_state(ctx, cache, key)
                ent = ({"key": key, "integrity": sri, "time": 1000, "size": len(got), "metadata": None, "raw_metadata": None}, got)
                if not matches(md, rd, ent):
                    ctx.violation(sig + "|Ok-but-key-not-new", f"{sc.name} reported success but the key does not read what was "
                                  f"committed: {ev.brief(md)} / {ev.brief(rd)}", det)
        else:
            md, rd = lookup_state(ctx, cache, key)
            if not matches(md, rd, old):
                okp = ev.is_ok(md) and md["ok"]["entry"] and ev.is_ok(rd) and data.startswith(drv.data_bytes(rd["ok"]["data"]))
                if not okp:
                    ctx.violation(sig + "|Err-neither-old-nor-new", f"{sc.name} failed ({ev.variant(r)}) and the key is neither the old "
                                  f"entry nor a readable prefix: {ev.brief(md)} / {ev.brief(rd)}", det)
        retry_needed = False
    elif kind == "write-rejected":
        if ok:
            ctx.violation(sig + "|rejected-commit-Ok", "a commit with fewer bytes than declared reported success", det)
        md, rd = lookup_state(ctx, cache, key)
        if not matches(md, rd, old):
            ctx.violation(sig + "|rejected-commit-changed-key", f"key changed by a rejected commit: {ev.brief(md)}", det)
        retry_needed = False
    elif kind == "read":
        if ok and drv.data_bytes(r["ok"]["data"]) != sc.meta["data"]:
            ctx.violation(sig + "|wrong-bytes", f"{sc.name} returned Ok with wrong or incomplete bytes under the fault", det)
    elif kind == "copy":
        if ok:
            try:
                got = open(extra["<DEST>"], "rb").read()
            except OSError:
                got = None
            if got != sc.meta["data"] or r["ok"].get("n") != len(sc.meta["data"]):
                ctx.violation(sig + "|copy-Ok-wrong", f"copy returned Ok but the destination holds {None if got is None else len(got)} bytes", det)
    elif kind == "metadata":
        if ok and entry_diffs(r["ok"]["entry"], old[0]):
            ctx.violation(sig + "|untruthful-lookup", f"metadata returned Ok({'None' if r['ok']['entry'] is None else 'other entry'}) "
                          f"under the fault although the entry exists", det)
    elif kind == "list":
        if ok:
            items = r["ok"]["items"]
            errs = [i for i in items if "err" in i]
            keys = sorted(i["key"] for i in items if "err" not in i)
            if not errs and keys != sorted(["k"] + [b for b, _ in BY]):
                ctx.violation(sig + "|incomplete-listing", f"list returned an incomplete listing {keys} without any error item", det)
            retry_needed = bool(errs)
    elif kind == "remove":
        md, rd = lookup_state(ctx, cache, key)
        if ok and not matches(md, rd, None):
            ctx.violation(sig + "|remove-Ok-still-there", f"remove reported success but the key is still found: {ev.brief(md)}", det)
        if not ok and not (matches(md, rd, None) or matches(md, rd, old)):
            ctx.violation(sig + "|remove-Err-garbled", f"remove failed and the key is neither present nor absent: {ev.brief(md)}", det)
    elif kind == "remove_hash":
        ex = ctx.call("sync@astd", {"op": "exists", "cache": cache, "sri": sc.req["sri"]})
        if ok and ev.is_ok(ex) and ex["ok"]["exists"]:
            ctx.violation(sig + "|remove_hash-Ok-still-there", "remove_hash reported success but the content still exists", det)
    elif kind == "remove_fully":
        md, rd0 = lookup_state(ctx, cache, key)
        if ok and not (ev.is_ok(md) and md["ok"]["entry"] is None):
            ctx.violation(sig + "|remove_fully-Ok-still-there", f"remove_fully reported success but the key is still found", det)
    # ---- state afterwards
    probs = ref.check_content_tree(cache)
    if probs:
        ctx.violation(sig + "|content-tree", f"after the fault: {probs[0]}", det)
    idx = os.path.join(cache, "index-v5")
    if os.path.isdir(idx):
        for dp, _dn, fn in os.walk(idx):
            for f in fn:
                raw = open(os.path.join(dp, f), "rb").read()
                _recs, gp = ref.check_bucket_grammar(raw)
                if gp and not (short and name in ("write", "pwrite64")):
                    ctx.violation(sig + "|bucket-grammar", f"after the fault a bucket file is not a clean record sequence: {gp[0]}", det)
    if not sc.meta.get("cold"):
        for bk, bd in BY:
            if sc.meta["kind"] == "remove_hash" and bk == "by-1":
                continue
            md, rd = lookup_state(ctx, cache, bk)
            exp = ({"key": bk, "integrity": ref.sri("sha256", bd), "time": 42, "size": len(bd), "metadata": None, "raw_metadata": None}, bd)
            if not matches(md, rd, exp):
                ctx.violation(sig + "|bystander", f"bystander {bk!r} affected by the fault: {ev.brief(md)} / {ev.brief(rd)}", det)
    # ---- listing and lookups still agree; nothing but hash-named bucket files under index-v5
    lst = ctx.call("sync@astd", {"op": "list", "cache": cache})
    if ev.is_ok(lst) and not any("err" in i for i in lst["ok"]["items"]):
        listed = [i["key"] for i in lst["ok"]["items"]]
        if len(listed) != len(set(listed)):
            ctx.violation(sig + "|list-duplicate", f"after the fault the listing yields a key twice: {sorted(listed)}", det)
        for k in set(listed) | {"k"} | {b for b, _ in BY}:
            md = ctx.call("sync@astd", {"op": "metadata", "cache": cache, "key": k})
            found = ev.is_ok(md) and md["ok"]["entry"] is not None
            if found != (k in listed):
                ctx.violation(sig + "|list-vs-lookup", f"after the fault key {k!r} is {'listed' if k in listed else 'not listed'} "
                              f"but lookup says {'found' if found else 'not found'}", det)
    elif not sc.meta.get("cold"):
        ctx.violation(sig + "|list-broken", f"after the fault list fails: {ev.brief(lst)}", det)
    if os.path.isdir(idx):
        import re as _re
        for dp, _dn, fn in os.walk(idx):
            for f in fn:
                rel = os.path.relpath(os.path.join(dp, f), idx)
                if not _re.fullmatch(r"[0-9a-f]{2}/[0-9a-f]{2}/[0-9a-f]{36}", rel):
                    ctx.violation(sig + "|stray-index-file", f"after the fault a file that is not a bucket is left in the index: {rel}", det)
    # ---- once the fault is gone the same call succeeds
    if retry_needed:
        ctx.count("re_executions")
        try:
            os.unlink(extra["<DEST>"])
        except OSError:
            pass
        r2 = ctx.call(sc.mode, crash.subst(sc.req, cache, extra))
        if not ev.is_ok(r2):
            ctx.violation(sig + f"|retry-{ev.variant(r2)}", f"once the fault is gone, the same {sc.name} call still fails: {ev.brief(r2)}",
                          dict(det, retry=r2))
        elif kind == "write" and key and sc.meta.get("newent"):
            md, rd = lookup_state(ctx, cache, key)
            if not matches(md, rd, sc.meta["newent"]):
                ctx.violation(sig + "|retry-not-visible", f"the retried write succeeded but is not visible: {ev.brief(md)}", det)
        elif kind == "read" and drv.data_bytes(r2["ok"]["data"]) != sc.meta["data"]:
            ctx.violation(sig + "|retry-wrong-bytes", "the retried read returned wrong bytes", det)
        elif "data" in (r2.get("ok") or {}):
            drv.data_bytes(r2["ok"]["data"])
