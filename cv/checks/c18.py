"""C18 — extraction to a path delivers exact bytes; failed checks leave nothing behind."""
import os

from .. import drv, ev, gen, ref, retr, sysm, damage

MARK = b"PRE-EXISTING DESTINATION \x00\x01\x02"


def expected(name, state, dest_present, emu):
    """Allowed result classes for an extraction. state: pristine|damaged|missing|nokey"""
    by_key = not ("hash" in name)
    checked = "unchecked" not in name
    kind = "copy" if name.startswith("copy") else "hard_link" if name.startswith("hard_link") else "reflink"
    if state == "nokey":
        return {"EntryNotFound"} if by_key else None
    if state == "missing":
        return {"IoError"}
    if state == "damaged" and checked:
        return {"IntegrityError"}
    # pristine, or damaged+unchecked: the extraction itself proceeds
    if kind == "copy":
        return {"Ok"}
    if kind == "hard_link":
        return {"IoError"} if dest_present else {"Ok"}
    if kind == "reflink":
        if dest_present:
            return {"IoError"}
        return {"Ok"} if emu else {"IoError"}
    return {"Ok"}


def run(ctx):
    rng = ctx.rng
    modes = drv.QUICK_MODES if ctx.quick else drv.ALL_MODES
    sizes = [0, 1, 1023, 1024, 1025, 8193, 70000] if ctx.quick else [0, 1, 1023, 1024, 1025, 8191, 8192, 8193, gen.MIB + 1, 3 * gen.MIB]
    ctx.rule = ("case = (size, extraction entry point [copy/hard_link/reflink x key/hash x checked/unchecked, reflink "
                "with and without emulated FICLONE], mode, destination absent/present(marker bytes), content state "
                "pristine / one of the C01 damage classes / missing, key present/absent). After every call the "
                "destination is lstat'ed and read by the harness; look-alike neighbours (<name>.tmp, .part, .<name>.swp) must survive. Aliased destinations (symlink to a file, dangling symlink, file with a second hard link), pristine and damaged content. Size sweep: pristine content of every size 2^k, 3*2^k and "
                "their neighbours (k <= 17 quick, 21 thorough) through every copy/hard-link entry point. distinct = (entry point, mode, content state, "
                "damage class, destination state, size)")
    ctx.assumptions = ["no reflink-capable filesystem: FICLONE is emulated for the success path",
                       "pre-existing destinations carry marker bytes distinct from any stored or damaged data"]
    base = ctx.new_dir("base")        # cache and destinations on one file system (hard links!)
    cache = os.path.join(base, "cache")
    destroot = os.path.join(base, "dest")
    os.makedirs(destroot)
    fic = {}

    def ficlone_driver(variant):
        if variant not in fic:
            w = sysm.argv([ctx.scratch] + ([ctx.scratch2] if ctx.scratch2 else []), "/dev/null", ficlone=True,
                          all_in_op=True, timeout=3600)
            fic[variant] = drv.Driver(variant, outdir=ctx.outdir, wrapper=w)
        return fic[variant]

    names = retr.CHECKED_EXTRACT + retr.UNCHECKED_EXTRACT
    for size in sizes:
        algo = rng.choice(gen.ALGOS)
        data = rng.randbytes(size)
        other = rng.randbytes(size) if size else b"y"
        key, okey = f"x-{size}", f"o-{size}"
        w1 = ctx.call("sync@astd", {"op": "write", "cache": cache, "key": key, "algo": algo, "data": ctx.data(data)})
        w2 = ctx.call("sync@astd", {"op": "write", "cache": cache, "key": okey, "algo": algo, "data": ctx.data(other)})
        if not (ev.is_ok(w1) and ev.is_ok(w2)):
            ctx.inconc(f"setup failed {ev.brief(w1)}", fatal=True)
            return
        sri, osri = w1["ok"]["sri"], w2["ok"]["sri"]
        path, opath = ref.content_path_sri(cache, sri), ref.content_path_sri(cache, osri)
        dmg_all = damage.small_damages(data, other) if size <= 1 else damage.large_damages(rng, data, other)
        # one representative per damage class (C01 enumerates positions exhaustively)
        bycls = {}
        for d in dmg_all:
            bycls.setdefault(d[0], []).append(d)
        dmgs = [rng.choice(v) for v in bycls.values()]
        states = [("pristine", None), ("nokey", None), ("missing", None)] + [("damaged", d) for d in dmgs]
        for state, spec in states:
            cm = damage.Damaged(path, opath, spec, data, other) if spec else None
            current = data
            if cm:
                cm.__enter__()
                current = cm.current
                if current == data:
                    cm.__exit__(None, None, None)
                    continue
            if state == "missing":
                os.rename(path, path + ".gone")
            try:
                for mode in modes:
                    for dest_present in (False, True):
                        ddir = os.path.join(destroot, f"d{ctx.counters['evaluations']}")
                        os.makedirs(ddir)
                        reqs, meta = [], []
                        for n in names:
                            if not retr.available(n, mode):
                                continue
                            dest = os.path.join(ddir, n)
                            if dest_present:
                                with open(dest, "wb") as f:
                                    f.write(MARK)
                            k = "no-such-key" if state == "nokey" else key
                            reqs.append(retr.request(n, cache, k, sri, dest))
                            meta.append((n, dest, False))
                        # files that merely LOOK related to a destination (<name>.tmp, <name>.part, .<name>.swp) are somebody
                        # else's: they must survive every extraction untouched
                        neigh = {}
                        for (n, dest, _e) in meta:
                            for nn in (dest + ".tmp", dest + ".part", os.path.join(ddir, "." + n + ".swp")):
                                neigh[nn] = b"neighbour of " + n.encode()
                                with open(nn, "wb") as f:
                                    f.write(neigh[nn])
                        resps = ctx.batch(mode, reqs)
                        variant, m = drv.MODES[mode]
                        rreqs, rmeta = [], []
                        for n in [x for x in names if x.startswith("reflink") and retr.available(x, mode)]:
                            dest = os.path.join(ddir, n + "-emu")
                            if dest_present:
                                with open(dest, "wb") as f:
                                    f.write(MARK)
                            k = "no-such-key" if state == "nokey" else key
                            q = retr.request(n, cache, k, sri, dest)
                            q["mode"] = m
                            rreqs.append(q)
                            rmeta.append((n, dest, True))
                        try:
                            rresps = ficlone_driver(variant).batch(rreqs, timeout=60)
                        except (drv.DriverHang, drv.DriverDied) as e:
                            ctx.inconc(f"FICLONE-emulating driver failed: {e}")
                            fic.pop(variant, None)
                            rresps = []
                        for (n, dest, emu), r, q in list(zip(meta, resps, reqs)) + list(zip(rmeta, rresps, rreqs)):
                            judge(ctx, n, mode, emu, state, spec, dest_present, size, data, current, dest, r, q,
                                  cache, key, algo)
                        # nothing but the named destinations may appear in the destination directory
                        for nn, want in neigh.items():
                            try:
                                okn = open(nn, "rb").read() == want
                            except OSError:
                                okn = False
                            if not okn:
                                ctx.violation(f"extract|{mode}|{state}|neighbour-of-destination-changed",
                                              f"extraction ({state}) changed or removed {os.path.basename(nn)!r}, a file that only "
                                              f"looks related to a destination", {"mode": mode, "state": state,
                                                                                  "steps": [[mode, q] for q in reqs[:3]]})
                                break
                        named = {os.path.basename(d) for (_n, d, _e) in meta + rmeta} | {os.path.basename(x) for x in neigh}
                        extra = set(os.listdir(ddir)) - named
                        if extra:
                            ctx.violation(f"extract|{mode}|{state}|stray-file-next-to-destination",
                                          f"extraction ({state}, destination {'present' if dest_present else 'absent'}) left files "
                                          f"nobody named in the destination directory: {sorted(extra)[:4]}",
                                          {"mode": mode, "state": state, "steps": [[mode, q] for q in reqs[:3]]})
                        ctx.rm(ddir)
            finally:
                if state == "missing":
                    os.rename(path + ".gone", path)
                if cm:
                    cm.__exit__(None, None, None)
    size_sweep(ctx, rng, cache, destroot, modes)
    aliased_destinations(ctx, rng, cache, destroot, modes)
    repeat_after_damage(ctx, rng, cache, destroot, modes)
    for d in fic.values():
        d.close()


def size_sweep(ctx, rng, cache, destroot, modes):
    """Pristine content of every edge size (2^k, 3*2^k and neighbours) through every extraction entry point: a buffer
    or threshold that is exactly full at one size shows nowhere else."""
    sizes = gen.edge_sizes(17 if ctx.quick else 21)
    for si, size in enumerate(sizes):
        algo = "sha256" if si % 3 else rng.choice(gen.ALGOS)
        data = rng.randbytes(size)
        # not every payload is random bytes: runs of zeros (sparse files, disk images, padded archives) at the start, in
        # the middle, at the end, or all the way
        shape = ("random", "all-zero", "zero-tail", "zero-head", "zero-middle")[si % 5]
        if size >= 2 and shape != "random":
            z = max(1, min(size // 2, 8192)) if size < 16384 else rng.choice([4096, 8192, size // 2 // 4096 * 4096 or 4096])
            if shape == "all-zero":
                data = bytes(size)
            elif shape == "zero-tail":
                data = data[:size - z] + bytes(z)
            elif shape == "zero-head":
                data = bytes(z) + data[z:]
            else:
                a = (size - z) // 2
                data = data[:a] + bytes(z) + data[a + z:]
        key = f"sweep-{size}"
        w = ctx.call("sync@astd", {"op": "write", "cache": cache, "key": key, "algo": algo, "data": ctx.data(data)})
        if not ev.is_ok(w):
            ctx.inconc(f"size sweep: setup write of {size} bytes failed: {ev.brief(w)}")
            continue
        sri = w["ok"]["sri"]
        for mode in (modes if size <= 70000 or not ctx.quick else [modes[si % len(modes)]]):
            ddir = os.path.join(destroot, f"sweep-{size}-{mode.replace('@', '-')}")
            os.makedirs(ddir)
            reqs, meta = [], []
            for n in retr.CHECKED_EXTRACT + retr.UNCHECKED_EXTRACT:
                if not retr.available(n, mode) or n.startswith("reflink"):
                    continue
                dest = os.path.join(ddir, n)
                reqs.append(retr.request(n, cache, key, sri, dest))
                meta.append((n, dest))
            for (n, dest), r, q in zip(meta, ctx.batch(mode, reqs), reqs):
                judge(ctx, n, mode, False, "pristine", None, False, size, data, data, dest, r, q, cache, key, algo)
                ctx.count("size_sweep_extractions")
            ctx.rm(ddir)
        ctx.call("sync@astd", {"op": "remove_hash", "cache": cache, "sri": sri})


def aliased_destinations(ctx, rng, cache, destroot, modes):
    """The destination has a second name: it is a symlink to an existing file, a dangling symlink, or a file with another
    hard link. A successful copy delivers the bytes (through the link); a checked copy that fails verification leaves the
    unverified bytes under NONE of the names."""
    for size in (300, 20000):
        data = rng.randbytes(size)
        key = f"alias-{size}"
        w = ctx.call("sync@astd", {"op": "write", "cache": cache, "key": key, "data": ctx.data(data)})
        if not ev.is_ok(w):
            continue
        sri = w["ok"]["sri"]
        path = ref.content_path_sri(cache, sri)
        bad = bytearray(data)
        bad[size // 2] ^= 0x01
        bad = bytes(bad)
        for state in ("pristine", "damaged"):
            with open(path, "wb") as f:
                f.write(data if state == "pristine" else bad)
            for mode in modes:
                for n in ("copy", "copy_hash") + (("copy_unchecked", "copy_hash_unchecked") if state == "pristine" else ()):
                    if not retr.available(n, mode):
                        continue
                    for kind in ("symlink-to-file", "dangling-symlink", "hard-link-twin"):
                        ddir = os.path.join(destroot, f"alias-{size}-{state}-{mode.replace('@', '-')}-{n}-{kind}")
                        os.makedirs(ddir)
                        dest, other = os.path.join(ddir, "dest"), os.path.join(ddir, "other-name")
                        if kind == "symlink-to-file":
                            open(other, "wb").write(MARK)
                            os.symlink(other, dest)
                        elif kind == "dangling-symlink":
                            os.symlink(other, dest)
                        else:
                            open(other, "wb").write(MARK)
                            os.link(other, dest)
                        q = retr.request(n, cache, key, sri, dest)
                        r = ctx.call(mode, q)
                        ctx.case(distinct_key=("aliased-destination", n, mode, state, kind, size))
                        ctx.count("aliased_destination_extractions")
                        holders = []
                        for nm in os.listdir(ddir):
                            try:
                                if open(os.path.join(ddir, nm), "rb").read() == bad:
                                    holders.append(nm)
                            except OSError:
                                pass
                        det = {"entry_point": n, "mode": mode, "state": state, "destination": kind, "size": size,
                               "response": r, "steps": [[mode, q]]}
                        if state == "damaged":
                            if ev.is_ok(r):
                                ctx.violation(f"{n}|{mode}|aliased-destination|{kind}|damaged-Ok",
                                              f"{n} in {mode} onto a {kind} destination returned Ok on damaged content", det)
                            elif holders:
                                ctx.violation(f"{n}|{mode}|aliased-destination|{kind}|unverified-bytes-left",
                                              f"{n} in {mode} failed verification ({ev.variant(r)}) but the unverified bytes are left "
                                              f"under {holders} (the destination was a {kind})", det)
                        elif ev.is_ok(r):
                            try:
                                got = open(dest, "rb").read()
                            except OSError:
                                got = None
                            if got != data:
                                ctx.violation(f"{n}|{mode}|aliased-destination|{kind}|wrong-bytes",
                                              f"{n} in {mode} onto a {kind} destination returned Ok but reading the destination gives "
                                              f"{None if got is None else len(got)} bytes that are not the stored ones", det)
                        ctx.rm(ddir)
        with open(path, "wb") as f:
            f.write(data)


def repeat_after_damage(ctx, rng, cache, destroot, modes):
    """Extract, damage the content IN PLACE (same inode), extract again to the same destination: the second checked
    extraction must not succeed while the destination holds bytes that fail verification."""
    for size in (1, 300, 20000):
        data = rng.randbytes(size)
        key = f"again-{size}"
        w = ctx.call("sync@astd", {"op": "write", "cache": cache, "key": key, "data": ctx.data(data)})
        if not ev.is_ok(w):
            continue
        sri = w["ok"]["sri"]
        path = ref.content_path_sri(cache, sri)
        for mode in modes:
            avail = [x for x in retr.CHECKED_EXTRACT if retr.available(x, mode)]
            firsts = [x for x in retr.CHECKED_EXTRACT + retr.UNCHECKED_EXTRACT if retr.available(x, mode) and not x.startswith("reflink")]
            # the second (checked) extraction n goes to a destination that an earlier extraction n1 produced: the same
            # entry point again, or any other one (a hard link shares the content file's inode, a copy does not)
            pairs = [(n, n) for n in avail] + [(n1, n) for n1 in firsts for n in avail if n1 != n and not n.startswith("reflink")]
            if ctx.quick:
                pairs = [(n, n) for n in avail] + rng.sample(pairs[len(avail):], min(8, len(pairs) - len(avail)))
            for n1, n in pairs:
                ddir = os.path.join(destroot, f"again-{size}-{mode.replace('@', '-')}-{n1}-{n}")
                os.makedirs(ddir)
                dest = os.path.join(ddir, "out")
                q = retr.request(n, cache, key, sri, dest)
                r1 = ctx.call(mode, retr.request(n1, cache, key, sri, dest))
                with open(path, "r+b") as f:          # in place: the inode (and any hard link to it) stays the same
                    b0 = f.read(1)
                    f.seek(0)
                    f.write(bytes([b0[0] ^ 0x20]))
                damaged = open(path, "rb").read()
                r2 = ctx.call(mode, q)
                kind, got = retr.read_dest(dest)
                ctx.case(distinct_key=("repeat-after-damage", n1, n, mode, size))
                ctx.count("repeat_after_damage")
                if ev.is_ok(r2) and got != data:
                    ctx.violation(f"{n}|{mode}|repeat-after-in-place-damage|Ok",
                                  f"{n} in {mode}: extracted once (by {n1}), content then damaged in place, second extraction to the same "
                                  f"destination returned Ok although the destination holds bytes that fail verification",
                                  {"entry_point": n, "first_entry_point": n1, "mode": mode, "size": size, "first": ev.brief(r1),
                                   "steps": [[mode, retr.request(n1, cache, key, sri, dest)], [mode, q]]})
                elif not ev.is_ok(r2) and not n.startswith("hard_link") and not n1.startswith("hard_link") \
                        and kind in ("file", "symlink") and got == damaged:
                    # (a destination that IS the content file's inode shows the damage whatever the second call does)
                    ctx.violation(f"{n}|{mode}|repeat-after-in-place-damage|unverified-bytes-left",
                                  f"{n} in {mode}: second extraction failed verification but left the unverified bytes", {"steps": [[mode, q]]})
                with open(path, "r+b") as f:
                    f.write(b0)
                ctx.rm(ddir)


def judge(ctx, n, mode, emu, state, spec, dest_present, size, data, current, dest, r, q, cache, key, algo):
    allowed = expected(n, state, dest_present, emu)
    if allowed is None:   # by-address call in the "key absent" state: same as pristine
        allowed = expected(n, "pristine", dest_present, emu)
        state_eff = "pristine"
    else:
        state_eff = state
    v = ev.variant(r)
    dcls = spec[0] if spec else "-"
    label = n + ("+ficlone" if emu else "")
    ctx.count(f"extractions[{label}]")
    ctx.count(f"outcome[{v}]")
    ctx.case(distinct_key=(label, mode, state_eff, dcls, dest_present, size),
             sample={"entry_point": label, "mode": mode, "state": state_eff, "damage": dcls, "dest_present": dest_present,
                     "size": size, "result": v} if ctx.counters["evaluations"] % 401 == 0 else None)
    kind, got = retr.read_dest(dest)
    ctx.count("destinations_inspected")
    sig = f"{label}|{mode}|{state_eff}|{dcls}|dest-{'present' if dest_present else 'absent'}"
    det = {"entry_point": label, "mode": mode, "state": state_eff, "damage": list(spec[:2]) if spec else None,
           "size": size, "algo": algo, "dest_present": dest_present, "response": r,
           "dest_after": {"kind": kind, "len": None if got is None else len(got)},
           "steps": [["sync@astd", {"op": "write", "cache": cache, "key": key, "algo": algo,
                                    "data": {"hex": data[:2048].hex()}}], [mode, q]]}
    checked = "unchecked" not in n
    # (1) result class
    if v not in allowed:
        # a checked call on damaged content may fail with any error; what it must not do is succeed
        if not (state_eff == "damaged" and checked and v in ("IoError",)):
            ctx.violation(sig + f"|{v}", f"{label} in {mode} ({state_eff}, damage {dcls}, destination "
                          f"{'present' if dest_present else 'absent'}) returned {ev.brief(r)}; allowed {sorted(allowed)}", det)
            return
    # (2) destination contents
    if v == "Ok":
        want = data if checked else current
        # a content entry may itself be a symlink (link_to): a hard link to it reads the same bytes
        if kind not in ("file", "symlink") or got != want:
            ctx.violation(sig + "|dest-bytes", f"{label} returned Ok but the destination is {kind} with "
                          f"{None if got is None else len(got)} bytes, expected the {len(want)} "
                          f"{'stored' if checked else 'current'} bytes", det)
        if n.startswith("copy") and r["ok"].get("n") != len(want):
            ctx.violation(sig + "|count", f"{label} returned count {r['ok'].get('n')}, data length is {len(want)}", det)
    else:
        if state_eff == "damaged" and checked:
            ctx.count("failed_verifications")
            if kind in ("file", "symlink") and got == current and not (dest_present and current == MARK):
                ctx.violation(sig + "|unverified-bytes-left",
                              f"{label} failed verification ({v}) but left a {kind} at the destination holding the "
                              f"{len(current)} unverified bytes", det)
        if dest_present and (kind != "file" or got != MARK) and not (state_eff == "damaged" and checked and got == current):
            # a failing call must not clobber a pre-existing destination with something else
            if v in ("EntryNotFound",) or (n.startswith("hard_link") or n.startswith("reflink")):
                ctx.violation(sig + "|dest-clobbered", f"{label} failed with {v} but the pre-existing destination "
                              f"changed ({kind}, {None if got is None else len(got)} bytes)", det)
        if not dest_present and kind != "absent" and not (state_eff == "damaged" and checked):
            if v in ("EntryNotFound",) or state_eff == "missing":
                ctx.violation(sig + "|dest-created", f"{label} failed with {v} but created a {kind} at the destination", det)
