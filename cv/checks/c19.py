"""C19 — linked entries (link_to) read back verified target bytes, never copy or clobber."""
import os
import stat

from .. import drv, ev, gen, ref

PROBE, BUF = 8, 16 * 1024


def snap(path):
    st = os.lstat(path)
    with open(path, "rb") as f:
        return (st.st_mode, st.st_mtime_ns, st.st_size, f.read())


def run(ctx):
    rng = ctx.rng
    modes = drv.QUICK_MODES if ctx.quick else drv.ALL_MODES
    n = 1200 if ctx.quick else 12000
    ctx.rule = ("case = (mode, entry point [link_to / link_to_hash / ToLinker::open(+partial reads) / WriteOpts::link_to "
                "with size+integrity options], target length in {0,1,16KiB-1,16KiB,16KiB+1,100KiB}, absolute or "
                "relative target path with the driver chdir'ed next to the target or elsewhere (twelve spellings of the same file, incl. a name that is itself a symlink to it: "
                "./x, ../t/x, sub/../x, symlinked-dir/../x, via a symlinked directory, cwd entered through a symlink, ..//t/./x), partial reads of "
                "{0,1,8,9,16KiB,all} bytes (optionally followed by read_to_end) before commit, address pre-existing as regular content or not, post-link "
                "mutation of the target [none/modify/truncate/replace/remove], then removal of the linked entry by key (fully) or by "
                "address: the link must leave the content area even when it dangles, the owner's file stays untouched). Judged: read(key)/read_hash(address) "
                "bytes, recorded size, lstat of the content path (symlink unless a regular file pre-existed), target "
                "bytes/mode/mtime unchanged, reads after mutation never Ok with different bytes, size/integrity "
                "options enforced. distinct = (mode, entry point, length class, path kind, pre-existing?, mutation)")
    ctx.assumptions = ["targets live on the same tmpfs as the cache"]
    lens = [0, 1, BUF - 1, BUF, BUF + 1, 100 * 1024]
    base = ctx.new_dir("links")
    cwd0 = os.getcwd()
    for i in range(n):
        mode = modes[i % len(modes)]
        cache = os.path.join(base, f"cache{i}")
        tdir = os.path.join(base, f"t{i}")
        os.makedirs(tdir)
        ln = lens[(i // len(modes)) % len(lens)]
        data = rng.randbytes(ln)
        tpath = os.path.join(tdir, "target file.bin")
        with open(tpath, "wb") as f:
            f.write(data)
        os.chmod(tpath, rng.choice([0o644, 0o600, 0o444]))
        before = snap(tpath)
        # every spelling below names the SAME file as far as the operating system is concerned
        pathkind = rng.choice(["abs", "rel-here", "rel-dotdot", "rel-dot", "rel-sub-dotdot", "rel-symdir-dotdot",
                               "rel-via-symdir", "abs-symdir-dotdot", "rel-noise", "cwd-via-symlink",
                               "abs-file-symlink", "rel-file-symlink"])
        other = os.path.join(base, f"elsewhere{i}")
        if pathkind == "abs":
            tgt, chdir = tpath, None
        elif pathkind == "rel-here":
            tgt, chdir = "target file.bin", tdir
        elif pathkind == "rel-dot":
            tgt, chdir = "./target file.bin", tdir
        elif pathkind == "rel-dotdot":
            os.makedirs(other)
            tgt, chdir = os.path.join("..", f"t{i}", "target file.bin"), other
        elif pathkind == "rel-noise":
            os.makedirs(other)
            tgt, chdir = f"..//t{i}/./target file.bin", other
        elif pathkind == "rel-sub-dotdot":
            os.makedirs(os.path.join(tdir, "sub"))
            tgt, chdir = "sub/../target file.bin", tdir
        elif pathkind in ("rel-symdir-dotdot", "abs-symdir-dotdot"):
            # elsewhere/ln -> t/sub : "ln/.." is t, not elsewhere
            os.makedirs(os.path.join(tdir, "sub"))
            os.makedirs(other)
            os.symlink(os.path.join(tdir, "sub"), os.path.join(other, "ln"))
            if pathkind == "rel-symdir-dotdot":
                tgt, chdir = "ln/../target file.bin", other
            else:
                tgt, chdir = os.path.join(other, "ln", "..", "target file.bin"), None
        elif pathkind == "rel-via-symdir":
            os.makedirs(other)
            os.symlink(tdir, os.path.join(other, "ln"))
            tgt, chdir = "ln/target file.bin", other
        elif pathkind in ("abs-file-symlink", "rel-file-symlink"):
            # the name the caller uses is itself a symlink to the file (current -> v1.bin)
            os.symlink("target file.bin", os.path.join(tdir, "current"))
            if pathkind == "abs-file-symlink":
                tgt, chdir = os.path.join(tdir, "current"), None
            else:
                tgt, chdir = "current", tdir
        else:   # the working directory was entered through a symlink
            os.makedirs(other)
            os.symlink(tdir, os.path.join(other, "cwdlink"))
            tgt, chdir = "target file.bin", os.path.join(other, "cwdlink")
        via = rng.choice(["fn", "fn", "open", "opts"])
        keyed = rng.random() < 0.75
        key = f"link-{i}"
        pre = rng.random() < 0.3
        sri = ref.sri("sha256", data)
        cpath = ref.content_path_sri(cache, sri)
        steps = []
        if pre:
            steps.append({"op": "write_hash", "cache": cache, "data": ctx.data(data)})
        if chdir:
            steps.append({"op": "chdir", "dir": chdir})
        req = {"op": "linker", "cache": cache, "target": tgt, "via": via}
        if keyed:
            req["key"] = key
        expect = {"Ok"}
        if via != "fn":
            req["reads"] = rng.choice([[], [0], [1], [8], [9], [BUF], [ln + 10], [3, 5, BUF, 7]])
            if rng.random() < 0.35:
                # the rest is consumed through read_to_end(): the linker is then polled with a partly filled buffer
                req["then_to_end"] = True
        if via == "opts":
            opts = {}
            r = rng.random()
            if r < 0.3:
                opts["size"] = ln
            elif r < 0.5:
                opts["size"] = ln + 1
                expect = {"SizeMismatch"}
            elif r < 0.7 and ln >= 2:
                # fewer bytes declared than the target holds; the caller reads exactly the declared amount
                opts["size"] = rng.choice([1, ln // 2, ln - 1])
                req["reads"] = rng.choice([[opts["size"]], [1] * min(opts["size"], 5) + [max(0, opts["size"] - 5)], [], [opts["size"] + 1]])
                expect = {"SizeMismatch"}
            r = rng.random()
            if r < 0.15:
                opts["sri"] = sri
            elif r < 0.3:
                # several algorithms, all correct: the entry must stay readable
                opts["sri"] = f"{ref.sri(rng.choice(['sha512', 'sha384', 'sha1']), data)} {sri}"
            elif r < 0.45:
                opts["sri"] = ref.sri("sha256", data + b"!")
                expect = {"IntegrityError"} if "SizeMismatch" not in expect else {"IntegrityError", "SizeMismatch"}
            if rng.random() < 0.3:
                opts["metadata"] = {"linked": True}
            req["opts"] = opts
        steps.append(req)
        if chdir:
            steps.append({"op": "chdir", "dir": cwd0})
        lookups = []
        if keyed:
            lookups += [{"op": "metadata", "cache": cache, "key": key}, {"op": "read", "cache": cache, "key": key}]
        lookups += [{"op": "read_hash", "cache": cache, "sri": sri},
                    {"op": "reader", "cache": cache, "sri": sri, "bufs": [rng.choice([1024, 8192, 65536])]}]
        if ctx.counters.get("driver_hangs", 0) > 6:
            ctx.inconc("more than 6 calls did not terminate: the remaining cases are skipped (each costs a watchdog period)")
            break
        resps = ctx.batch(mode, steps + lookups)
        lr = resps[len(steps):]
        w = resps[len(steps) - (2 if chdir else 1)]
        v = ev.variant(w)
        lclass = {0: "0", 1: "1"}.get(ln, "16K-1" if ln == BUF - 1 else "16K" if ln == BUF else "16K+1" if ln == BUF + 1 else "100K")
        ep = f"{via}-{'key' if keyed else 'hash'}"
        sig = f"{mode}|{ep}|{pathkind}|len{lclass}|{'pre' if pre else 'fresh'}"
        det = {"steps": [[mode, s] for s in steps + lookups], "target_len": ln, "response": w}
        mutation = "none"
        if v not in expect:
            ctx.case(distinct_key=(mode, ep, lclass, pathkind, pre, "n/a"))
            ctx.violation(sig + f"|{v}", f"link_to ({ep}, {pathkind} target path, {ln} bytes) returned {ev.brief(w)}, "
                          f"expected {sorted(expect)}", det)
            continue
        if v != "Ok":
            # rejected like an ordinary write: key must not be mapped
            if keyed and not (ev.is_ok(lr[0]) and lr[0]["ok"]["entry"] is None):
                ctx.violation(sig + "|rejected-but-mapped", f"link_to rejected with {v} but the key is mapped: {ev.brief(lr[0])}", det)
            if pre:
                try:
                    okp = stat.S_ISREG(os.lstat(cpath).st_mode) and open(cpath, "rb").read() == data
                except OSError:
                    okp = False
                if not okp:
                    ctx.violation(sig + "|rejected-but-existing-content-lost",
                                  f"link_to was rejected with {v}, but the regular content that was stored at that address "
                                  f"before is gone or changed", det)
            ctx.case(distinct_key=(mode, ep, lclass, pathkind, pre, "rejected"))
            ctx.count("enforcement_rejections")
            continue
        if w["ok"].get("sri") != sri:
            ctx.violation(sig + "|wrong-address", f"link_to returned {w['ok'].get('sri')}, sha256 of the target is {sri}", det)
        # partial reads returned target bytes
        if "read" in w["ok"]:
            got = drv.data_bytes(w["ok"]["read"])
            if got != data[:len(got)]:
                ctx.violation(sig + "|linker-read-bytes", "bytes read through the linker handle differ from the target", det)
        # reads
        off = 0
        if keyed:
            m = lr[0]
            if not ev.is_ok(m) or not m["ok"]["entry"]:
                ctx.violation(sig + "|not-mapped", f"key not found after link_to: {ev.brief(m)}", det)
            else:
                e = m["ok"]["entry"]
                if e["size"] != ln:
                    ctx.violation(sig + "|size", f"recorded size {e['size']} != target length {ln}", det)
                if e["integrity"] != sri:
                    ctx.violation(sig + "|entry-address", f"entry integrity {e['integrity']} != {sri}", det)
            off = 2
            rd = lr[1]
            if not ev.is_ok(rd) or drv.data_bytes(rd["ok"]["data"]) != data:
                ctx.violation(sig + "|read-key", f"read(key) after link_to ({pathkind} path): {ev.brief(rd)}", det)
        for what, rr in (("read_hash", lr[off]), ("Reader", lr[off + 1])):
            if not ev.is_ok(rr) or drv.data_bytes(rr["ok"]["data"]) != data:
                ctx.violation(sig + f"|{what}", f"{what}(address) after link_to ({pathkind} path): {ev.brief(rr)}", det)
        # no copy, no clobber
        try:
            st = os.lstat(cpath)
            if pre:
                if not stat.S_ISREG(st.st_mode) or open(cpath, "rb").read() != data:
                    ctx.violation(sig + "|clobbered-existing", "pre-existing regular content file was replaced or changed", det)
            elif not stat.S_ISLNK(st.st_mode):
                ctx.violation(sig + "|copied", "content path is not a symlink: the data was copied", det)
        except FileNotFoundError:
            ctx.violation(sig + "|no-content-path", "no content path exists after link_to", det)
        if snap(tpath) != before:
            ctx.violation(sig + "|target-modified", "target bytes, mode or mtime changed by link_to", det)
        ctx.count("links_ok")
        # post-link mutation (only meaningful when the cache points at the target)
        if not pre:
            mutation = rng.choice(["none", "modify", "truncate", "replace", "remove", "append"])
            os.chmod(tpath, 0o644)
            if mutation == "modify" and ln:
                b = bytearray(data)
                b[rng.randrange(ln)] ^= 0x40
                open(tpath, "wb").write(bytes(b))
            elif mutation == "truncate" and ln:
                open(tpath, "wb").write(data[:ln // 2])
            elif mutation == "append":
                open(tpath, "ab").write(b"+")
            elif mutation == "replace":
                os.unlink(tpath)
                open(tpath, "wb").write(rng.randbytes(ln + 1))
            elif mutation == "remove":
                os.unlink(tpath)
            else:
                mutation = "none"
            if mutation != "none":
                q = [{"op": "read_hash", "cache": cache, "sri": sri},
                     {"op": "reader", "cache": cache, "sri": sri, "bufs": [8192]}]
                if keyed:
                    q.append({"op": "read", "cache": cache, "key": key})
                for qq, rr in zip(q, ctx.batch(mode, q)):
                    ctx.count("reads_after_mutation")
                    if ev.is_ok(rr):
                        got = drv.data_bytes(rr["ok"]["data"])
                        if got != data:
                            ctx.violation(sig + f"|after-{mutation}|wrong-bytes", f"after the target was changed ({mutation}) "
                                          f"{qq['op']} returned Ok with different bytes", det)
                        else:
                            ctx.violation(sig + f"|after-{mutation}|Ok", f"after the target was changed ({mutation}) "
                                          f"{qq['op']} still returned Ok", det)
                    elif ev.variant(rr) not in ("IntegrityError", "IoError"):
                        ctx.violation(sig + f"|after-{mutation}|{ev.variant(rr)}", f"after {mutation}: {ev.brief(rr)}", det)
            # finally the linked entry is removed (fully by key, or by address): the link must be gone from the content
            # area - also when it dangles - and the owner's file, if it still exists, must not be touched by that
            tb = snap(tpath) if os.path.lexists(tpath) else None
            rq = ({"op": "remove_fully", "cache": cache, "key": key} if keyed and rng.random() < 0.6
                  else {"op": "remove_hash", "cache": cache, "sri": sri})
            rr = ctx.call(mode, rq)
            ctx.count("removals_of_linked_entries")
            rdet = dict(det, removal=[mode, rq], mutation=mutation)
            if not ev.is_ok(rr):
                ctx.violation(sig + f"|{rq['op']}-after-{mutation}|{ev.variant(rr)}",
                              f"{rq['op']} of a linked entry (target {mutation}) failed: {ev.brief(rr)}", rdet)
            else:
                if os.path.lexists(cpath):
                    ctx.violation(sig + f"|{rq['op']}-after-{mutation}|link-left-behind",
                                  f"{rq['op']} of a linked entry (target {mutation}) returned Ok but the link is still in the content "
                                  f"area ({'dangling' if not os.path.exists(cpath) else 'live'})", rdet)
                if rq["op"] == "remove_fully":
                    md = ctx.call(mode, {"op": "metadata", "cache": cache, "key": key})
                    if not (ev.is_ok(md) and md["ok"]["entry"] is None):
                        ctx.violation(sig + f"|remove_fully-after-{mutation}|still-mapped", f"key still mapped after remove_fully: {ev.brief(md)}", rdet)
                ta = snap(tpath) if os.path.lexists(tpath) else None
                if ta != tb:
                    ctx.violation(sig + f"|{rq['op']}-after-{mutation}|target-touched",
                                  "removing a linked entry changed (or removed) the owner's file", rdet)
            try:
                os.unlink(cpath)
            except OSError:
                pass
        ctx.case(distinct_key=(mode, ep, lclass, pathkind, pre, mutation),
                 sample={"mode": mode, "entry_point": ep, "target_len": ln, "path": pathkind, "target_arg": tgt,
                         "pre_existing": pre, "mutation": mutation, "reads": req.get("reads")})
