"""C12 — sync, async-std and tokio flavours of the API are observationally equivalent.
Differential execution of generated programs (incl. damage steps) on separate
fresh caches, plus mixed-mode runs on one shared directory."""
import hashlib
import os
import shutil

from .. import drv, ev, gen, ref, retr

SYNC_ONLY_OPS = {"list", "index_ls", "hard_link_hash", "hard_link_unchecked", "hard_link_hash_unchecked",
                 "reflink_hash_unchecked"}
NOW_LO, NOW_HI = 1_500_000_000_000, 3_000_000_000_000


def gen_program(ctx, rng, n):
    """A program is a list of abstract steps; <C> and <D> are substituted per run."""
    keys = list(dict.fromkeys(rng.sample(gen.HOSTILE_KEYS, 3) + ["k1", "k2"]))
    datas = [gen.data(rng, s) for s in (0, 5, 300, rng.choice([4097, 70000]))]
    written = []   # (key, algo, data) candidates for by-address ops
    prog = []
    target_data = rng.randbytes(rng.choice([0, 10, 20000]))
    for i in range(n):
        r = rng.random()
        k = rng.choice(keys)
        if r < 0.22 or not written:
            d = rng.choice(datas)
            algo = rng.choice(gen.ALGOS[:4])
            if rng.random() < 0.4:
                prog.append({"op": "write", "key": k, "algo": algo, "data": d})
            else:
                opts = {"algo": algo, "time": str(rng.choice([0, 1, 123456, 2 ** 40 - 1, 2 ** 64, 2 ** 100]))}
                if rng.random() < 0.4:
                    opts["metadata"] = gen.json_value(rng, maxdepth=2)
                if rng.random() < 0.3:
                    opts["raw_metadata"] = gen.raw_metadata(rng)[:30].hex()
                sc = rng.random()
                if sc < 0.3:
                    opts["size"] = len(d)
                elif sc < 0.4:
                    opts["size"] = len(d) + 1
                if rng.random() < 0.1:
                    opts["sri"] = ref.sri(algo, d + b"!")
                elif rng.random() < 0.15:
                    # the caller declares the (right or wrong) digest of ANOTHER algorithm, names no algorithm itself or
                    # keeps the one above, or lists several hashes: whatever that means, it means the same in every flavour
                    oa = rng.choice([a for a in ("sha512", "sha384", "sha256", "sha1") if a != algo])
                    opts["sri"] = ref.sri(oa, d + rng.choice([b"", b"", b"!"]))
                    if rng.random() < 0.4:
                        opts["sri"] = opts["sri"] + " " + ref.sri(algo, d)
                    if rng.random() < 0.6:
                        del opts["algo"]
                _s, lens = gen.chunking(rng, len(d))
                keyed = rng.random() < 0.8
                st = {"op": "writer", "opts": opts, "chunks": gen.split(d, lens),
                      "final": rng.choice(["commit"] * 5 + ["drop"])}
                if keyed:
                    st["key"] = k
                prog.append(st)
            written.append((k, algo, d))
        elif r < 0.5:
            kk, algo, d = rng.choice(written)
            sri = ref.sri(algo, d)
            name = rng.choice(retr.CHECKED_WHOLE + retr.CHECKED_STREAM + retr.CHECKED_EXTRACT + retr.UNCHECKED_EXTRACT)
            st = {"op": "retrieve", "name": name, "key": rng.choice([kk, k]), "sri": sri, "dest": f"d{i}",
                  "bufs": rng.choice(retr.BUFSETS[2:])}
            if rng.random() < 0.15:
                st["dest_present"] = True
            prog.append(st)
        elif r < 0.6:
            prog.append({"op": rng.choice(["metadata", "index_find"]), "key": k})
        elif r < 0.64:
            kk, algo, d = rng.choice(written)
            prog.append({"op": "exists", "sri": ref.sri(algo, d)})
        elif r < 0.7:
            prog.append({"op": "list"})
        elif r < 0.76:
            prog.append({"op": rng.choice(["remove", "remove_opts", "index_delete"]), "key": k})
        elif r < 0.8:
            kk, algo, d = rng.choice(written)
            prog.append({"op": "remove_hash", "sri": ref.sri(algo, d)})
        elif r < 0.83:
            prog.append({"op": "remove_fully", "key": k})
        elif r < 0.845:
            prog.append({"op": "clear"})
        elif r < 0.87:
            d = rng.choice(datas)
            prog.append({"op": "index_insert", "key": k,
                         "opts": {"sri": ref.sri("sha256", d), "time": str(rng.randrange(1000)), "size": rng.randrange(100)}})
        elif r < 0.89:
            prog.append({"op": "link_to", "key": k, "target_data": target_data, "keyed": rng.random() < 0.7})
        elif r < 0.9:
            prog.append({"op": "damage_target", "how": rng.choice(["delete", "modify", "restore"])})
        elif r < 0.95:
            kk, algo, d = rng.choice(written)
            prog.append({"op": "damage_content", "sri": ref.sri(algo, d),
                         "how": rng.choice(["flip", "truncate", "extend", "delete", "empty", "dangling-symlink",
                                            "parent-is-file", "is-directory"]), "pos": rng.random()})
        else:
            prog.append({"op": "damage_bucket", "key": k,
                         "how": rng.choice(["append-garbage", "append-badutf8", "flip", "truncate", "torn-tail", "nul-line"]
                                           + FOREIGN_RECORDS + [x for x in FOREIGN_RECORDS if x.startswith("foreign-json-")] * 2),
                         "pos": rng.random()})
    return prog


# records with a correct line checksum and valid JSON whose CONTENT is what another tool or a later version might
# write: no reader may treat them differently from the other flavours' readers
FOREIGN_RECORDS = ["foreign-unknown-algo", "foreign-empty-integrity", "foreign-integrity-options", "foreign-extra-field",
                   "foreign-missing-optional", "foreign-float-size", "foreign-negative-size", "foreign-bad-base64",
                   "foreign-integrity-number", "foreign-key-mismatch-case",
                   "foreign-multi-bad-strongest", "foreign-multi-short-strongest", "foreign-multi-bad-weakest",
                   # perfectly valid records in another tool's JSON spelling
                   "foreign-json-tabs", "foreign-json-spaces", "foreign-json-reordered", "foreign-json-ascii-escapes"]


def foreign_record(how, key):
    import json as _json
    good = ref.sri("sha256", b"foreign payload")
    obj = {"key": key, "integrity": good, "time": 4242, "size": 15, "metadata": None, "raw_metadata": None}
    if how == "foreign-unknown-algo":
        obj["integrity"] = "sha3-512-" + "A" * 86 + "=="
    elif how == "foreign-empty-integrity":
        obj["integrity"] = ""
    elif how == "foreign-integrity-options":
        obj["integrity"] = good + "?foo=bar"
    elif how == "foreign-extra-field":
        obj["version"] = 6
        obj["tags"] = ["x"]
    elif how == "foreign-missing-optional":
        del obj["raw_metadata"]
        del obj["metadata"]
    elif how == "foreign-float-size":
        obj["size"] = 15.0
    elif how == "foreign-negative-size":
        obj["size"] = -1
    elif how == "foreign-multi-bad-strongest":
        obj["integrity"] = "sha512-@@@@ " + good
    elif how == "foreign-multi-short-strongest":
        obj["integrity"] = "sha512-AA== " + good
    elif how == "foreign-multi-bad-weakest":
        obj["integrity"] = good + " sha1-not*base64"
    elif how == "foreign-bad-base64":
        obj["integrity"] = "sha256-not*base64*at*all"
    elif how == "foreign-integrity-number":
        obj["integrity"] = 12345
    elif how == "foreign-key-mismatch-case":
        obj["key"] = key.swapcase() if key.swapcase() != key else key + "x"
    if how == "foreign-json-tabs":
        return ref.record_bytes(_json.dumps(obj, separators=(",\t", ":\t"), ensure_ascii=False))
    if how == "foreign-json-spaces":
        return ref.record_bytes(_json.dumps(obj, separators=(", ", " : "), ensure_ascii=False))
    if how == "foreign-json-reordered":
        return ref.record_bytes(_json.dumps(dict(reversed(list(obj.items()))), separators=(",", ":"), ensure_ascii=False))
    if how == "foreign-json-ascii-escapes":
        return ref.record_bytes(_json.dumps(obj, separators=(",", ":"), ensure_ascii=True))
    return ref.record_bytes(_json.dumps(obj, separators=(",", ":"), ensure_ascii=False))


def harness_step(st, cache, target=None, target_data=b""):
    """Damage steps are executed by the harness itself, identically for every run."""
    if st["op"] == "damage_target":
        if target is None:
            return "n/a"
        if st["how"] == "delete":
            try:
                os.unlink(target)
            except OSError:
                pass
        elif st["how"] == "modify":
            with open(target, "wb") as f:
                f.write(target_data + b"+modified")
        else:
            with open(target, "wb") as f:
                f.write(target_data)
        return st["how"]
    if st["op"] == "damage_content":
        p = ref.content_path_sri(cache, st["sri"])
        how = st["how"]
        if how == "parent-is-file":
            d = os.path.dirname(p)
            if os.path.isdir(d) and not os.path.islink(d):
                shutil.rmtree(d)
                with open(d, "wb") as f:
                    f.write(b"not a directory")
                return how
            return "absent"
        if not os.path.lexists(p) or os.path.isdir(p):
            return "absent"
        if how == "dangling-symlink":
            os.unlink(p)
            os.symlink("/nonexistent/cv-dangling-target", p)
            return how
        if how == "is-directory":
            os.unlink(p)
            os.makedirs(p)
            return how
        try:
            with open(p, "rb") as f:
                b = f.read()
        except OSError:
            return "absent"
        if how == "delete":
            os.unlink(p)
            return "deleted"
        if how == "empty":
            nb = b""
        elif how == "extend":
            nb = b + b"\x00"
        elif how == "truncate":
            nb = b[:int(len(b) * st["pos"])]
        else:
            if not b:
                nb = b"\x01"
            else:
                i = int((len(b) - 1) * st["pos"])
                nb = b[:i] + bytes([b[i] ^ 0x10]) + b[i + 1:]
        with open(p, "wb") as f:
            f.write(nb)
        return how
    if st["op"] == "damage_bucket":
        p = ref.bucket_path(cache, st["key"])
        try:
            with open(p, "rb") as f:
                b = f.read()
        except OSError:
            return "absent"
        how = st["how"]
        if how.startswith("foreign-"):
            with open(p, "ab") as f:
                f.write(foreign_record(how, st["key"]))
            return how
        if how == "append-garbage":
            nb = b + b"\ngarbage line without tab"
        elif how == "append-badutf8":
            nb = b + b"\n\xff\xfe\x00bad\tutf8"
        elif how == "nul-line":
            nb = b + b"\n" + b"\x00" * 50
        elif how == "truncate":
            nb = b[:int(len(b) * st["pos"])]
        elif how == "torn-tail":
            nb = b[:max(0, len(b) - 1 - int(20 * st["pos"]))]
        else:
            if not b:
                nb = b
            else:
                i = int((len(b) - 1) * st["pos"])
                nb = b[:i] + bytes([b[i] ^ 0x04]) + b[i + 1:]
        with open(p, "wb") as f:
            f.write(nb)
        return how
    return None


def concrete(ctx, st, cache, dest, target):
    op = st["op"]
    if op == "write":
        return {"op": "write", "cache": cache, "key": st["key"], "algo": st["algo"], "data": ctx.data(st["data"])}
    if op == "writer":
        q = {"op": "writer", "cache": cache, "opts": st["opts"], "chunks": [ctx.data(c) for c in st["chunks"]],
             "final": st["final"]}
        if "key" in st:
            q["key"] = st["key"]
        return q
    if op == "retrieve":
        d = os.path.join(dest, st["dest"]) if st["name"] in retr.CHECKED_EXTRACT + retr.UNCHECKED_EXTRACT else None
        return retr.request(st["name"], cache, st["key"], st["sri"], d, st["bufs"])
    if op == "link_to":
        q = {"op": "link_to", "cache": cache, "target": target}
        if st["keyed"]:
            q["key"] = st["key"]
        return q
    q = {k: v for k, v in st.items()}
    q["cache"] = cache
    return q


def normalise(st, r, dest):
    """Mode-independent view of a step's response."""
    v = ev.variant(r)
    if v != "Ok":
        return (v,)
    ok = r["ok"]
    out = ["Ok"]
    if "data" in ok:
        b = drv.data_bytes(ok["data"])
        out.append(("data", len(b), hashlib.sha1(b).hexdigest()))
    for f in ("sri", "n", "exists", "dropped", "checked"):
        if f in ok:
            out.append((f, ok[f]))
    if "entry" in ok:
        out.append(("entry", norm_entry(ok["entry"])))
    if "items" in ok:
        items = []
        for it in ok["items"]:
            items.append(("err", it["err"].get("variant")) if "err" in it else norm_entry(it))
        out.append(("items", tuple(sorted(map(repr, items)))))
    if st["op"] == "retrieve" and dest:
        out.append(("dest", dest_view(dest)))
    return tuple(out)


def dest_view(p):
    kind, b = retr.read_dest(p)
    return (kind, None if b is None else (len(b), hashlib.sha1(b).hexdigest()))


def norm_entry(e):
    if e is None:
        return None
    t = int(e["time"])
    return (e["key"], e["integrity"], "NOW" if NOW_LO <= t <= NOW_HI else t, e["size"], repr(e["metadata"]), e["raw_metadata"])


def tree_view(cache):
    idx = {}
    for rel, entries in ref.read_index(cache).items():
        idx[rel] = [(e["key"], e["integrity"], "NOW" if NOW_LO <= e["time"] <= NOW_HI else e["time"], e["size"],
                     repr(e["metadata"]), e["raw_metadata"]) for e in entries]
    content = {}
    root = os.path.join(cache, "content-v2")
    for dp, _dn, fn in os.walk(root):
        for f in fn:
            p = os.path.join(dp, f)
            k, b = retr.read_dest(p)
            content[os.path.relpath(p, cache)] = (k if k != "file" else "file", None if b is None else hashlib.sha1(b).hexdigest())
    return idx, content


def route(st, mode):
    """Entry points that only exist synchronously run through the sync API of the same build."""
    name = st.get("name", st["op"])
    if mode.startswith("async") and name in SYNC_ONLY_OPS:
        return "sync@" + mode.split("@")[1]
    return mode


def run_program(ctx, prog, mode_of_step, tag):
    """Execute prog on a fresh cache; mode_of_step(i) gives the mode for step i."""
    base = ctx.new_dir(tag)
    cache = os.path.join(base, "cache")
    dest = os.path.join(base, "dest")
    os.makedirs(dest)
    target = os.path.join(base, "target.bin")
    tdata = next((s["target_data"] for s in prog if s["op"] == "link_to"), b"")
    with open(target, "wb") as f:
        f.write(tdata)
    views = []
    i = 0
    while i < len(prog):
        st = prog[i]
        if st["op"].startswith("damage_"):
            views.append(("harness", harness_step(st, cache, target, tdata)))
            i += 1
            continue
        m = route(st, mode_of_step(i))
        j = i
        batch = []
        while j < len(prog) and not prog[j]["op"].startswith("damage_") and route(prog[j], mode_of_step(j)) == m:
            q = concrete(ctx, prog[j], cache, dest, target)
            if prog[j].get("dest_present") and q.get("to"):
                with open(q["to"], "wb") as f:
                    f.write(b"already here")
            batch.append(q)
            j += 1
        resps = ctx.batch(m, batch)
        for s, q, r in zip(prog[i:j], batch, resps):
            views.append(normalise(s, r, q.get("to")))
        i = j
    tv = tree_view(cache)
    return views, tv, base


def run(ctx):
    rng = ctx.rng
    modes = drv.QUICK_MODES if ctx.quick else drv.ALL_MODES
    nprog = 400 if ctx.quick else 5000
    ctx.rule = ("program = 10-60 steps over the whole op table (all write options incl. wrong declared size/integrity, "
                "all retrieval entry points, lookups, listing, removals, clear, raw index ops, link_to) INCLUDING "
                "harness steps that damage content files (flip/truncate/extend/delete/empty) and bucket files "
                "(garbage, invalid UTF-8, NUL line, flips, truncation, torn tail); each program is run in every mode on "
                "a fresh cache and compared step by step (Ok/error variant/panic, returned data+metadata, destination "
                "files) and by decoded final trees; 1 in 3 programs is additionally run with consecutive steps routed "
                "to different modes on ONE shared directory. distinct = distinct programs (hash of op sequence); "
                "op kinds covered are listed")
    ctx.assumptions = ["error context strings and io::ErrorKind are recorded, not compared",
                       "default timestamps are normalised", "entry points that exist only synchronously run through "
                       "the sync API of each build"]
    opkinds = set()
    for pi in range(nprog):
        prog = gen_program(ctx, rng, rng.randint(10, 40 if ctx.quick else 60))
        for s in prog:
            opkinds.add(s.get("name", s["op"]))
        runs = {}
        bases = []
        for m in modes:
            views, tv, base = run_program(ctx, prog, lambda i, m=m: m, f"p{pi}-{m.replace('@', '-')}")
            runs[m] = (views, tv)
            bases.append(base)
        if pi % 3 == 0:
            order = [rng.choice(modes) for _ in prog]
            views, tv, base = run_program(ctx, prog, lambda i: order[i], f"p{pi}-mixed")
            runs["mixed"] = (views, tv)
            bases.append(base)
            ctx.count("mixed_mode_programs")
        ref_mode = modes[0]
        rviews, rtv = runs[ref_mode]
        nerr = sum(1 for v in rviews if v and v[0] not in ("Ok", "harness"))
        ctx.count("steps_compared", len(prog) * (len(runs) - 1))
        ctx.count("error_steps", nerr)
        ctx.count("damage_steps", sum(1 for s in prog if s["op"].startswith("damage_")))
        h = hashlib.sha1(repr([(s["op"], s.get("name"), s.get("key"), s.get("how")) for s in prog]).encode()).hexdigest()
        ctx.case(distinct_key=h, sample={"program": [f"{s['op']}:{s.get('name', s.get('how', ''))}" for s in prog][:25],
                                         "modes": list(runs)} if pi % 40 == 0 else None)
        for m, (views, tv) in runs.items():
            if m == ref_mode:
                continue
            bad = False
            for i, (a, b) in enumerate(zip(rviews, views)):
                if a != b:
                    st = prog[i]
                    name = st.get("name", st["op"])
                    ctx.violation(f"{name}|{ref_mode}-vs-{m}|{a[0]}-vs-{b[0]}",
                                  f"program {pi} step {i} ({name}): {ref_mode} gives {str(a)[:160]} but {m} gives {str(b)[:160]}",
                                  {"program": pi, "step": i, "modes": [ref_mode, m],
                                   "steps": [describe(s) for s in prog[:i + 1]], "views": [str(a)[:400], str(b)[:400]]})
                    bad = True
                    break
            if not bad and tv != rtv:
                di = diff_tree(rtv, tv)
                ctx.violation(f"final-tree|{ref_mode}-vs-{m}|{di[0]}",
                              f"program {pi}: final caches differ between {ref_mode} and {m}: {di[1]}",
                              {"program": pi, "steps": [describe(s) for s in prog]})
        for b in bases:
            ctx.rm(b)
    ctx.extra["op_kinds_covered"] = sorted(opkinds)
    ctx.extra["modes"] = modes


def describe(s):
    d = {}
    for k, v in s.items():
        if isinstance(v, bytes):
            d[k] = {"len": len(v), "hex": v[:64].hex()}
        elif k == "chunks":
            d[k] = [len(c) for c in v]
        else:
            d[k] = v
    return d


def diff_tree(a, b):
    ia, ca = a
    ib, cb = b
    if set(ca) != set(cb):
        return ("content-set", f"content files differ: {sorted(set(ca) ^ set(cb))[:3]}")
    for k in ca:
        if ca[k] != cb[k]:
            return ("content-bytes", f"content file {k} differs")
    if set(ia) != set(ib):
        return ("bucket-set", f"bucket files differ: {sorted(set(ia) ^ set(ib))[:3]}")
    for k in ia:
        if ia[k] != ib[k]:
            return ("records", f"records of {k} differ: {str(ia[k])[:150]} vs {str(ib[k])[:150]}")
    return ("?", "?")
