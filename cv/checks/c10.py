"""C10 — listing yields exactly the live entries, once each, agreeing with lookup."""
from .. import drv, ev, gen, hist, ref
from ..model import Model, entry_diffs


def run(ctx):
    rng = ctx.rng
    modes = drv.QUICK_MODES if ctx.quick else drv.ALL_MODES
    nh = 500 if ctx.quick else 8000
    ctx.rule = ("seeded histories biased to many records per bucket, tombstones first/middle/last, re-insertion, "
                "1-300 keys (one history per run with 3000, thorough also 20000), raw index records with an unusable integrity anywhere in a key's history, writes through sync and async entry points with metadata/raw metadata/time options; "
                "after the history (and at random intermediate points) list_sync is compared as a multiset with "
                "the model AND with metadata_sync(key) for every key ever used. distinct = distinct "
                "(number of live keys, number of tombstoned keys, max records per bucket, tombstone-position "
                "pattern) tuples")
    ctx.assumptions = ["an Err item caused by an absent index-v5 directory counts as the empty listing",
                       "single process at a time"]
    for h in range(nh):
        cache = ctx.new_cache()
        nkeys = rng.choice([1, 2, 3, 5, 8, 20, 60] + ([300] if (not ctx.quick or h % 40 == 0) else []))
        if h == 1 or (not ctx.quick and h % 100 == 1):
            # thousands of keys: many share first- and second-level index directories
            nkeys = 3000 if ctx.quick or h != 1 else 20000
        keys = []
        pool = list(gen.HOSTILE_KEYS)
        rng.shuffle(pool)
        while len(keys) < nkeys:
            k = pool.pop() if pool and rng.random() < 0.5 else gen.rand_unicode_key(rng)
            if k not in keys:
                keys.append(k)
        mixed = rng.random() < 0.4
        pure = rng.choice(modes)
        steps = []
        nrec = {}
        pattern = {}
        length = rng.randint(nkeys, nkeys * 3 + 10) if nkeys < 100 else nkeys + rng.randint(0, 100)
        if nkeys <= 3 and rng.random() < 0.3:
            length = rng.choice([30, 60, 150])      # dozens of records in one bucket
        for j in range(length):
            m = rng.choice(modes) if mixed else pure
            k = keys[j] if j < nkeys and rng.random() < 0.8 else rng.choice(keys)
            r = rng.random()
            tomb_first = (k not in nrec and r < 0.15)
            if rng.random() < 0.06:
                # a record nobody can use (raw index insert with an integrity that addresses nothing): wherever it lands in
                # the key's history, lookups and listings must go on as if it were a damaged line
                steps.append({"mode": m, "unusable": True,
                              "req": {"op": "index_insert", "cache": cache, "key": k,
                                      "opts": {"sri": rng.choice(["sha256-AA", "sha512-AAAAA===", "sha1-", "sha256-!!!!"]),
                                               "time": str(gen.time_value(rng)), "size": 3}}})
                ctx.count("unusable_records_inserted")
                nrec[k] = nrec.get(k, 0) + 1
                continue
            if rng.random() < 0.05:
                # an entry made through the raw index API whose integrity lists several hashes (what other cacache
                # implementations write): listed and looked up with the integrity exactly as recorded
                d9 = str(j).encode()
                hs9 = rng.sample(["sha512", "sha384", "sha256", "sha1"], rng.choice([2, 3]))
                sri9 = " ".join(ref.sri(a9, d9) for a9 in hs9)
                steps.append({"mode": m, "raw_entry": True,
                              "req": {"op": "index_insert", "cache": cache, "key": k,
                                      "opts": {"sri": sri9, "time": str(gen.time_value(rng)), "size": len(d9)}}})
                ctx.count("raw_multi_hash_entries")
                pattern.setdefault(k, []).append("W")
                nrec[k] = nrec.get(k, 0) + 1
                continue
            if tomb_first or r < 0.3:
                steps.append({"mode": m, "req": {"op": "remove", "cache": cache, "key": k}})
                pattern.setdefault(k, []).append("T")
            else:
                data = str(j).encode() * rng.randint(0, 3)
                opts = {}
                if rng.random() < 0.5:
                    opts["metadata"] = gen.json_value(rng, maxdepth=2)
                if rng.random() < 0.3:
                    opts["raw_metadata"] = gen.raw_metadata(rng)[:40].hex()
                if rng.random() < 0.02:
                    # one record far larger than any read-ahead window or buffer
                    opts["raw_metadata"] = rng.randbytes(rng.choice([20000, 40000])).hex()
                    opts["metadata"] = {"big": "y" * rng.choice([70000, 140000])}
                if rng.random() < 0.5:
                    opts["time"] = str(gen.time_value(rng))
                if opts:
                    steps.append({"mode": m, "req": {"op": "writer", "cache": cache, "key": k, "opts": opts,
                                                     "chunks": [ctx.data(data)]}, "data": data})
                else:
                    steps.append({"mode": m, "req": {"op": "write", "cache": cache, "key": k,
                                                     "data": ctx.data(data)}, "data": data})
                pattern.setdefault(k, []).append("W")
            nrec[k] = nrec.get(k, 0) + 1
            if rng.random() < (0.05 if nkeys < 1000 else 0.001):
                steps.append({"mode": "sync@astd", "req": {"op": "list", "cache": cache}, "probe": True})
        steps.append({"mode": "sync@astd", "req": {"op": "list", "cache": cache}, "probe": True, "final": True})
        for k in keys:
            steps.append({"mode": "sync@astd", "req": {"op": "metadata", "cache": cache, "key": k}, "probe": True})
        resps = hist.execute(ctx, steps)
        model = Model()
        bad = False
        final_list = None
        for i, (s, r) in enumerate(zip(steps, resps)):
            probs, obs = hist.judge(model, s, r)
            if s["req"]["op"] == "list":
                ctx.count("listings_compared")
                if s.get("final") and ev.is_ok(r):
                    final_list = {e["key"]: e for e in r["ok"]["items"] if "err" not in e}
            if s["req"]["op"] == "metadata" and final_list is not None and ev.is_ok(r):
                # library self-consistency: list item == metadata_sync(key)
                e = r["ok"]["entry"]
                k = s["req"]["key"]
                if (e is None) != (k not in final_list) or (e is not None and e != final_list[k]):
                    probs.append(f"list and metadata_sync disagree for key {k!r}: {str(final_list.get(k))[:120]} vs {str(e)[:120]}")
                ctx.count("list_vs_lookup_comparisons")
            if probs and not bad:
                bad = True
                ctx.violation(f"{s['req']['op']}|{'mixed' if mixed else pure}|keys<={10 ** len(str(nkeys))}",
                              f"history {h} step {i}: {probs[0]}",
                              {"history": h, "problems": probs[:5], "nkeys": nkeys,
                               "steps": [[x["mode"], x["req"]] for x in steps[:i + 1]]})
        live = len(model.index)
        dead = len([k for k in nrec if k not in model.index])
        pat = tuple(sorted({("".join(p)[:1] + ".." + "".join(p)[-1:]) for p in pattern.values()}))
        ctx.case(distinct_key=(live, dead, max(nrec.values() or [0]), pat),
                 sample={"keys": nkeys, "live": live, "removed": dead, "max_records_per_key": max(nrec.values() or [0]),
                         "patterns": list(pat), "mode": "mixed" if mixed else pure} if h % 37 == 0 else None)
        ctx.extra["max_records_per_bucket"] = max(ctx.extra.get("max_records_per_bucket", 0), max(nrec.values() or [0]))
        ctx.extra["max_keys"] = max(ctx.extra.get("max_keys", 0), nkeys)
        ctx.rm(cache.rsplit("/", 1)[0])
    ctx.count("histories", nh)
