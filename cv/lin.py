"""Linearizability checking (Wing & Gong / Lowe style search with memoisation)
for small per-object histories. Three-valued: True / False / None (budget
exhausted = inconclusive)."""
import time


def check(ops, init, step, budget_s=5.0):
    """ops: list of dicts with 'call', 'ret' (monotonic ns; ret may be None for
    an operation that never returned) plus whatever `step` needs.
    step(state, op) -> (ok, new_state).  Returns (verdict, witness)."""
    n = len(ops)
    if n == 0:
        return True, []
    INF = float("inf")
    events = []
    for i, o in enumerate(ops):
        events.append((o["call"], 0, i))
        events.append((o["ret"] if o.get("ret") is not None else INF, 1, i))
    events.sort(key=lambda e: (e[0], e[1]))
    m = len(events)
    # doubly linked list over event indices, with a head sentinel at index m
    nxt = list(range(1, m + 1)) + [0]
    prv = [m] + list(range(0, m))
    nxt[m] = 0
    prv[0] = m
    nxt[m - 1] = m
    kind = [e[1] for e in events]
    opi = [e[2] for e in events]
    ret_of = {}
    for idx, e in enumerate(events):
        if e[1] == 1:
            ret_of[e[2]] = idx
    HEAD = m

    def lift(ci):
        ri = ret_of[opi[ci]]
        nxt[prv[ci]] = nxt[ci]
        prv[nxt[ci]] = prv[ci]
        nxt[prv[ri]] = nxt[ri]
        prv[nxt[ri]] = prv[ri]

    def unlift(ci):
        ri = ret_of[opi[ci]]
        nxt[prv[ri]] = ri
        prv[nxt[ri]] = ri
        nxt[prv[ci]] = ci
        prv[nxt[ci]] = ci

    state = init
    lin = 0
    memo = set()
    stack = []
    entry = nxt[HEAD]
    t0 = time.time()
    steps = 0
    while nxt[HEAD] != HEAD:
        steps += 1
        if steps % 4096 == 0 and time.time() - t0 > budget_s:
            return None, None
        if entry == HEAD:
            # ran off the end without linearizing everything pending -> backtrack
            if not stack:
                return False, None
            entry, state = stack.pop()
            lin &= ~(1 << opi[entry])
            unlift(entry)
            entry = nxt[entry]
            continue
        if kind[entry] == 0:
            o = ops[opi[entry]]
            ok, new = step(state, o)
            key = (lin | (1 << opi[entry]), new)
            if ok and key not in memo:
                memo.add(key)
                stack.append((entry, state))
                state = new
                lin |= 1 << opi[entry]
                lift(entry)
                entry = nxt[HEAD]
            else:
                entry = nxt[entry]
        else:
            # a return event of an operation that is not linearized yet: dead end
            if ops[opi[entry]].get("ret") is None:
                # never-returned operations may stay unlinearized: they are at the tail (ret=INF)
                rest_ok = True
                e = entry
                while e != HEAD:
                    if kind[e] == 1 and ops[opi[e]].get("ret") is not None:
                        rest_ok = False
                        break
                    e = nxt[e]
                if rest_ok:
                    return True, [opi[s[0]] for s in stack]
            if not stack:
                return False, None
            entry, state = stack.pop()
            lin &= ~(1 << opi[entry])
            unlift(entry)
            entry = nxt[entry]
    return True, [opi[s[0]] for s in stack]


# ---------------------------------------------------------------- object models

def register_step(state, o):
    """Per-key register. state = current value id or None.
    o['kind']: write(v) / remove / read -> o['res'] value id or None."""
    k = o["kind"]
    if k == "write":
        return True, o["v"]
    if k == "remove":
        return True, None
    if k == "read":
        return (o["res"] == state), state
    return False, state


def presence_step(state, o):
    """Per-address presence. state = True/False.
    put: always -> True; del: Ok requires True -> False, Err requires False; get: res bool."""
    k = o["kind"]
    if k == "put":
        return True, True
    if k == "del":
        if o["res"] == "Ok":
            return (state is True), False
        return (state is False), False
    if k == "get":
        return (o["res"] == state), state
    return False, state
