"""Build the cdrv driver variants and sysmon from /repo's *current working tree*.

Every check calls `ensure(variant)`; cargo's own fingerprinting makes that a
no-op (< 1 s) when nothing changed and an incremental rebuild otherwise.
"""
import hashlib
import os
import shutil
import subprocess
import sys
import time

VERIF = os.path.dirname(os.path.dirname(os.path.abspath(__file__)))
REPO = os.environ.get("CV_REPO", "/repo")
BUILD = os.path.join(VERIF, ".build")

# variant -> (features, toolchain, profile, extra env, extra cargo args)
VARIANTS = {
    "astd": dict(features="astd,mmap", profile="release"),
    "tok": dict(features="tok,mmap", profile="release"),
    "asan-astd": dict(features="astd,mmap", profile="release", nightly=True,
                      rustflags="-Zsanitizer=address -Cforce-frame-pointers=yes",
                      target="x86_64-unknown-linux-gnu"),
    "asan-tok": dict(features="tok,mmap", profile="release", nightly=True,
                     rustflags="-Zsanitizer=address -Cforce-frame-pointers=yes",
                     target="x86_64-unknown-linux-gnu"),
    "tsan-tok": dict(features="tok,mmap", profile="release", nightly=True,
                     rustflags="-Zsanitizer=thread", target="x86_64-unknown-linux-gnu",
                     build_std=True),
    "miri-tok": dict(features="tok", profile="dev", nightly=True, miri=True),
    "miri-sync": dict(features="", profile="dev", nightly=True, miri=True),
}


def _suffix():
    if REPO == "/repo":
        return ""
    return "-" + hashlib.sha1(REPO.encode()).hexdigest()[:8]


def crate_dir(variant):
    return os.path.join(BUILD, variant + _suffix(), "crate")


def target_dir(variant):
    return os.path.join(BUILD, variant + _suffix(), "target")


def _prepare(variant):
    cd = crate_dir(variant)
    os.makedirs(cd, exist_ok=True)
    tmpl = open(os.path.join(VERIF, "driver", "Cargo.toml.in")).read().replace("@REPO@", REPO)
    p = os.path.join(cd, "Cargo.toml")
    if not os.path.exists(p) or open(p).read() != tmpl:
        with open(p, "w") as f:
            f.write(tmpl)
    src = os.path.join(cd, "src")
    want = os.path.join(VERIF, "driver", "src")
    if os.path.islink(src) and os.readlink(src) != want:
        os.unlink(src)
    if not os.path.lexists(src):
        os.symlink(want, src)
    lock = os.path.join(cd, "Cargo.lock")
    if not os.path.exists(lock):
        committed = os.path.join(VERIF, "driver", "Cargo.lock")
        if os.path.exists(committed):
            shutil.copy(committed, lock)
        elif os.path.exists(os.path.join(REPO, "Cargo.lock")):
            shutil.copy(os.path.join(REPO, "Cargo.lock"), lock)
    cfgd = os.path.join(cd, ".cargo")
    os.makedirs(cfgd, exist_ok=True)
    with open(os.path.join(cfgd, "config.toml"), "w") as f:
        f.write("[net]\noffline = true\n")
    return cd


def binary(variant):
    v = VARIANTS[variant]
    prof = "release" if v["profile"] == "release" else "debug"
    td = target_dir(variant)
    if v.get("target"):
        return os.path.join(td, v["target"], prof, "cdrv")
    return os.path.join(td, prof, "cdrv")


def cargo_cmd(variant, sub="build"):
    v = VARIANTS[variant]
    cmd = ["cargo"]
    if v.get("nightly"):
        cmd.append("+nightly")
    if v.get("miri"):
        cmd += ["miri", sub]
    else:
        cmd.append(sub)
    if v["profile"] == "release":
        cmd.append("--release")
    cmd += ["--offline", "--no-default-features"]
    if v["features"]:
        cmd += ["--features", v["features"]]
    if v.get("target"):
        cmd += ["--target", v["target"]]
    if v.get("build_std"):
        cmd += ["-Zbuild-std"]
    return cmd


def build_env(variant):
    v = VARIANTS[variant]
    env = dict(os.environ)
    env["CARGO_NET_OFFLINE"] = "true"
    env["CARGO_TARGET_DIR"] = target_dir(variant)
    if v.get("rustflags"):
        env["RUSTFLAGS"] = v["rustflags"]
    else:
        env.pop("RUSTFLAGS", None)
    return env


_done = {}


def ensure(variant, quiet=True):
    """Build (or refresh) a variant; returns the binary path. Raises on failure."""
    if variant in _done:
        return _done[variant]
    cd = _prepare(variant)
    v = VARIANTS[variant]
    if v.get("miri"):
        _done[variant] = None
        return None
    t0 = time.time()
    p = subprocess.run(cargo_cmd(variant), cwd=cd, env=build_env(variant),
                       stdout=subprocess.PIPE, stderr=subprocess.STDOUT, text=True)
    if p.returncode != 0:
        sys.stderr.write(p.stdout[-6000:])
        raise RuntimeError(f"build of driver variant {variant} failed")
    if not quiet:
        print(f"[build] {variant}: {time.time() - t0:.1f}s", flush=True)
    b = binary(variant)
    if not os.path.exists(b):
        raise RuntimeError(f"driver binary missing: {b}")
    _done[variant] = b
    return b


def ensure_sysmon():
    src = os.path.join(VERIF, "sysmon", "sysmon.c")
    out = os.path.join(BUILD, "sysmon")
    os.makedirs(BUILD, exist_ok=True)
    if not os.path.exists(out) or os.path.getmtime(out) < os.path.getmtime(src):
        p = subprocess.run(["gcc", "-O2", "-Wall", "-o", out, src],
                           stdout=subprocess.PIPE, stderr=subprocess.STDOUT, text=True)
        if p.returncode != 0:
            sys.stderr.write(p.stdout)
            raise RuntimeError("sysmon build failed")
    return out


def main(argv):
    which = argv or ["astd", "tok"]
    for v in which:
        if v == "sysmon":
            print(ensure_sysmon())
        else:
            print(ensure(v, quiet=False))


if __name__ == "__main__":
    main(sys.argv[1:])
