"""cvrun replay <file> — re-execute the steps recorded in a violation replay file
on a fresh scratch directory and print every response."""
import json
import os
import re
import shutil
import tempfile

from . import drv, ref, ev


def main(path):
    with open(path) as f:
        rec = json.load(f)
    print(f"property : {rec.get('property')}")
    print(f"signature: {rec.get('signature')}")
    print(f"what     : {rec.get('what')}")
    detail = rec.get("detail") or {}
    steps = detail.get("steps")
    if not steps:
        print("this replay file carries no executable steps; detail follows")
        print(json.dumps(detail, indent=1)[:6000])
        if detail.get("sysmon_argv"):
            print("supervisor argv:", " ".join(detail["sysmon_argv"]))
        return 0
    text = json.dumps(steps)
    m = re.search(r"/dev/shm/cv-C\d\d-[A-Za-z0-9_]+|/tmp/cv-C\d\d-[A-Za-z0-9_]+", text)
    base = tempfile.mkdtemp(prefix="cv-replay-", dir="/dev/shm" if os.path.isdir("/dev/shm") else None)
    if m:
        text = text.replace(m.group(0), base)
    text = text.replace("<C>", os.path.join(base, "cache")).replace("<cache>", os.path.join(base, "cache"))
    steps = json.loads(text)
    pool = drv.Pool(os.path.join(base, "out"))
    try:
        for i, (mode, req) in enumerate(steps):
            if mode in ("harness", "foreign"):
                if isinstance(req, dict) and "write_bucket_hex" in req:
                    cache = os.path.join(base, "cache")
                    p = ref.bucket_path(cache, req["key"])
                    os.makedirs(os.path.dirname(p), exist_ok=True)
                    with open(p, "wb") as f:
                        f.write(bytes.fromhex(req["write_bucket_hex"]))
                    print(f"[{i}] harness: wrote damaged bucket for key {req['key']!r}")
                else:
                    print(f"[{i}] harness step (not replayed): {str(req)[:200]}")
                continue
            if isinstance(req, dict) and req.get("cache"):
                os.makedirs(os.path.dirname(req["cache"]), exist_ok=True)
            try:
                r = pool.call(mode, req, timeout=30)
            except Exception as e:  # noqa
                print(f"[{i}] {mode} {req.get('op')}: driver failure: {e}")
                continue
            print(f"[{i}] {mode} {req.get('op')} {str({k: v for k, v in req.items() if k not in ('op', 'cache', 'mode')})[:160]}")
            print(f"     -> {ev.brief(r)}")
        if detail.get("sysmon_argv"):
            print("note: the violation was observed under the supervisor; its argv was:")
            print("  " + " ".join(str(x) for x in detail["sysmon_argv"]))
            for k in ("kill_at", "torn", "call", "syscall", "errno", "schedule"):
                if k in detail:
                    print(f"  {k} = {detail[k]}")
    finally:
        pool.close()
        shutil.rmtree(base, ignore_errors=True)
    return 0
