/* sysmon — ptrace supervisor for the cacache verification harness.
 *
 * Observes, perturbs and orders the real file-system system calls of 1..8
 * commands. See DESIGN.md §4.3.
 *
 *   sysmon [options] -- cmd args... [--- cmd args...]...
 *
 *   --log FILE            event log (JSON lines)
 *   --root PATH           visible root (repeatable)
 *   --kill-at N           SIGKILL everything at the entry of visible call N (1-based)
 *   --torn K              with --kill-at on a write/pwrite64: shorten it to K bytes, kill at its exit
 *   --inject N:ERRNO      visible call N fails with ERRNO (repeatable)
 *   --short N:K:ERRNO     visible call N (write) is shortened to K bytes; the next write on that fd fails
 *                         with ERRNO (ERRNO 0: nothing fails, a plain short write)
 *   --sched PREFIX        comma separated process indices, schedule control for >= 2 commands
 *   --tail first|rr|rand:SEED   policy once the prefix is exhausted (default first)
 *   --nosched LIST        comma separated syscall names that are never scheduling points
 *   --delay SEED:MAXUS    random delay before every visible call
 *   --emulate-ficlone     emulate ioctl(FICLONE) by copying bytes
 *   --timeout SEC         watchdog (default 60)
 *   --stdout-prefix P     stdout of command i goes to P.i
 *   --all-in-op           treat every call as inside an operation (no markers needed)
 *   --nosched-dirs        stat/access of an existing directory is never a scheduling point
 */
#define _GNU_SOURCE
#include <errno.h>
#include <fcntl.h>
#include <limits.h>
#include <signal.h>
#include <stdarg.h>
#include <stdint.h>
#include <stdio.h>
#include <stdlib.h>
#include <string.h>
#include <sys/ptrace.h>
#include <sys/stat.h>
#include <sys/syscall.h>
#include <sys/types.h>
#include <sys/uio.h>
#include <sys/user.h>
#include <sys/wait.h>
#include <time.h>
#include <unistd.h>
#include <linux/ptrace.h>

#define MAXT 1024
#define MAXP 8
#define MAXROOT 8
#define MAXINJ 16
#define PATHMAX 4352

#ifndef FICLONE
#define FICLONE 0x40049409
#endif
#ifndef FICLONERANGE
#define FICLONERANGE 0x4020940d
#endif

enum { PS_NOTSTARTED, PS_RUNNING, PS_PARKED, PS_DONE };

struct thr {
    pid_t tid;
    pid_t tgid;
    int proc;          /* command index */
    int used;
    int in_sys;        /* have entry info pending */
    /* pending entry info */
    long nr;
    unsigned long long a[6];
    char paths[2][PATHMAX];
    int npaths;
    char fdpath[PATHMAX];
    long fdarg;
    long long count;
    long flags;
    int visible;
    long vis_n;
    int inject_errno;  /* >0: rewrite return at exit */
    long long force_ret; /* used with emulate */
    int has_force_ret;
    int kill_at_exit;
    int parked;
    int schedpoint;
    struct timespec release; /* for delay */
    int delayed;
    long seq;
};

struct proc {
    pid_t tgid;
    int in_op;
    int state;
    int exited;
    int exit_status;
    /* private (O_EXCL-created, not yet renamed) paths */
    char priv[16][PATHMAX];
    int npriv;
    /* fd on which the next write must fail */
    int failfd;
    int failfd_errno;
};

static struct thr T[MAXT];
static struct proc P[MAXP];
static int nproc = 0;
static FILE *logf = NULL;
static char roots[MAXROOT][PATHMAX];
static int nroots = 0;
static long kill_at = 0;
static long long torn = -1;
static struct { long n; int err; long long shortk; } inj[MAXINJ];
static int ninj = 0;
static int sched_on = 0;
static int prefix[65536];
static int nprefix = 0;
static int prefix_pos = 0;
static int tail_policy = 0; /* 0 first, 1 rr, 2 rand */
static unsigned long long rngstate = 88172645463325252ULL;
static int rr_last = -1;
static char nosched[64][32];
static int nnosched = 0;
static int delay_on = 0;
static long delay_max_us = 0;
static int emulate_ficlone = 0;
static int timeout_s = 60;
static int all_in_op = 0;
static int nosched_dirs = 0;
static long visible_count = 0;
static long seq = 0;
static long decisions = 0;
static volatile sig_atomic_t alarmed = 0;
static int killed = 0;
static char stdout_prefix[PATHMAX] = "";

static unsigned long long rnd(void) {
    rngstate ^= rngstate << 13;
    rngstate ^= rngstate >> 7;
    rngstate ^= rngstate << 17;
    return rngstate;
}

static void on_alarm(int s) { (void)s; alarmed = 1; }

static void die(const char *fmt, ...) {
    va_list ap;
    va_start(ap, fmt);
    fprintf(stderr, "sysmon: ");
    vfprintf(stderr, fmt, ap);
    fprintf(stderr, "\n");
    va_end(ap);
    exit(4);
}

struct scname { long nr; const char *name; };
static const struct scname NAMES[] = {
    {SYS_open, "open"}, {SYS_openat, "openat"}, {SYS_creat, "creat"}, {437, "openat2"},
    {SYS_read, "read"}, {SYS_pread64, "pread64"}, {SYS_readv, "readv"}, {SYS_preadv, "preadv"}, {327, "preadv2"},
    {SYS_write, "write"}, {SYS_pwrite64, "pwrite64"}, {SYS_writev, "writev"}, {SYS_pwritev, "pwritev"}, {328, "pwritev2"},
    {SYS_rename, "rename"}, {SYS_renameat, "renameat"}, {316, "renameat2"},
    {SYS_link, "link"}, {SYS_linkat, "linkat"}, {SYS_symlink, "symlink"}, {SYS_symlinkat, "symlinkat"},
    {SYS_unlink, "unlink"}, {SYS_unlinkat, "unlinkat"}, {SYS_rmdir, "rmdir"}, {SYS_mkdir, "mkdir"}, {SYS_mkdirat, "mkdirat"},
    {SYS_stat, "stat"}, {SYS_lstat, "lstat"}, {SYS_fstat, "fstat"}, {SYS_newfstatat, "newfstatat"}, {332, "statx"},
    {SYS_access, "access"}, {SYS_faccessat, "faccessat"}, {439, "faccessat2"},
    {SYS_readlink, "readlink"}, {SYS_readlinkat, "readlinkat"},
    {SYS_getdents64, "getdents64"}, {SYS_getdents, "getdents"},
    {SYS_truncate, "truncate"}, {SYS_ftruncate, "ftruncate"}, {SYS_fallocate, "fallocate"},
    {SYS_mmap, "mmap"}, {326, "copy_file_range"}, {SYS_sendfile, "sendfile"}, {SYS_ioctl, "ioctl"},
    {SYS_fsync, "fsync"}, {SYS_fdatasync, "fdatasync"}, {SYS_sync_file_range, "sync_file_range"},
    {SYS_chmod, "chmod"}, {SYS_fchmod, "fchmod"}, {SYS_fchmodat, "fchmodat"},
    {SYS_chown, "chown"}, {SYS_fchown, "fchown"}, {SYS_lchown, "lchown"}, {SYS_fchownat, "fchownat"},
    {SYS_utimensat, "utimensat"}, {SYS_utime, "utime"}, {SYS_utimes, "utimes"}, {SYS_futimesat, "futimesat"},
    {SYS_setxattr, "setxattr"}, {SYS_lsetxattr, "lsetxattr"}, {SYS_fsetxattr, "fsetxattr"},
    {SYS_removexattr, "removexattr"}, {SYS_lremovexattr, "lremovexattr"}, {SYS_fremovexattr, "fremovexattr"},
    {SYS_mknod, "mknod"}, {SYS_mknodat, "mknodat"}, {SYS_chdir, "chdir"},
    {0, NULL}};

static const char *scname(long nr) {
    for (int i = 0; NAMES[i].name; i++)
        if (NAMES[i].nr == nr) return NAMES[i].name;
    return NULL;
}

static struct thr *find_thr(pid_t tid) {
    for (int i = 0; i < MAXT; i++)
        if (T[i].used && T[i].tid == tid) return &T[i];
    return NULL;
}

static pid_t read_tgid(pid_t tid) {
    char p[64], line[256];
    snprintf(p, sizeof p, "/proc/%d/status", tid);
    FILE *f = fopen(p, "r");
    if (!f) return tid;
    pid_t tg = tid;
    while (fgets(line, sizeof line, f)) {
        if (!strncmp(line, "Tgid:", 5)) { tg = atoi(line + 5); break; }
    }
    fclose(f);
    return tg;
}

static int proc_of_tgid(pid_t tgid) {
    for (int i = 0; i < nproc; i++)
        if (P[i].tgid == tgid) return i;
    return -1;
}

static struct thr *add_thr(pid_t tid, int proc_hint) {
    struct thr *t = find_thr(tid);
    if (t) return t;
    for (int i = 0; i < MAXT; i++)
        if (!T[i].used) {
            memset(&T[i], 0, sizeof T[i]);
            T[i].used = 1;
            T[i].tid = tid;
            T[i].tgid = read_tgid(tid);
            int p = proc_of_tgid(T[i].tgid);
            T[i].proc = p >= 0 ? p : proc_hint;
            return &T[i];
        }
    die("too many threads");
    return NULL;
}

static int read_str(pid_t tid, unsigned long long addr, char *out, size_t cap) {
    if (!addr) { out[0] = 0; return -1; }
    size_t off = 0;
    while (off + 1 < cap) {
        char buf[256];
        struct iovec l = {buf, sizeof buf};
        /* do not cross a page boundary in one read */
        size_t page_left = 4096 - ((addr + off) & 4095);
        size_t want = page_left < sizeof buf ? page_left : sizeof buf;
        struct iovec r = {(void *)(uintptr_t)(addr + off), want};
        ssize_t n = process_vm_readv(tid, &l, 1, &r, 1, 0);
        if (n <= 0) { out[off] = 0; return off ? 0 : -1; }
        for (ssize_t i = 0; i < n; i++) {
            if (off + 1 >= cap) { out[off] = 0; return 0; }
            out[off++] = buf[i];
            if (!buf[i]) return 0;
        }
    }
    out[off] = 0;
    return 0;
}

/* lexical normalisation of an absolute path */
static void normalize(char *p) {
    char out[PATHMAX];
    size_t n = 0;
    char *save = NULL;
    char tmp[PATHMAX];
    strncpy(tmp, p, sizeof tmp - 1);
    tmp[sizeof tmp - 1] = 0;
    out[0] = 0;
    for (char *tok = strtok_r(tmp, "/", &save); tok; tok = strtok_r(NULL, "/", &save)) {
        if (!strcmp(tok, ".")) continue;
        if (!strcmp(tok, "..")) {
            while (n > 0 && out[n - 1] != '/') n--;
            if (n > 0) n--;
            out[n] = 0;
            continue;
        }
        size_t l = strlen(tok);
        if (n + l + 2 >= sizeof out) break;
        out[n++] = '/';
        memcpy(out + n, tok, l);
        n += l;
        out[n] = 0;
    }
    if (n == 0) strcpy(out, "/");
    strcpy(p, out);
}

static void fd_to_path(pid_t tid, long fd, char *out, size_t cap) {
    char l[64];
    if (fd == AT_FDCWD) snprintf(l, sizeof l, "/proc/%d/cwd", tid);
    else snprintf(l, sizeof l, "/proc/%d/fd/%ld", tid, fd);
    ssize_t n = readlink(l, out, cap - 1);
    if (n < 0) n = 0;
    out[n] = 0;
    /* " (deleted)" suffix of unlinked files is kept: still identifies the file */
}

static void resolve_at(pid_t tid, long dirfd, unsigned long long addr, char *out) {
    char s[PATHMAX];
    if (read_str(tid, addr, s, sizeof s) < 0) { out[0] = 0; return; }
    if (s[0] == '/') {
        strncpy(out, s, PATHMAX - 1);
        out[PATHMAX - 1] = 0;
    } else {
        char d[PATHMAX];
        fd_to_path(tid, dirfd, d, sizeof d);
        if (s[0] == 0) { strncpy(out, d, PATHMAX - 1); out[PATHMAX - 1] = 0; }
        else snprintf(out, PATHMAX, "%.*s/%.*s", 2100, d, 2100, s);
    }
    normalize(out);
}

static int under_root(const char *p) {
    if (!p[0]) return 0;
    for (int i = 0; i < nroots; i++) {
        size_t l = strlen(roots[i]);
        if (!strncmp(p, roots[i], l) && (p[l] == 0 || p[l] == '/')) return 1;
    }
    return 0;
}

static void json_str(FILE *f, const char *s) {
    fputc('"', f);
    for (const unsigned char *c = (const unsigned char *)s; *c; c++) {
        if (*c == '"' || *c == '\\') fprintf(f, "\\%c", *c);
        else if (*c < 0x20) fprintf(f, "\\u%04x", *c);
        else if (*c >= 0x80) fprintf(f, "\\u%04x", 0xdc00 + *c); /* raw byte, lossless */
        else fputc(*c, f);
    }
    fputc('"', f);
}

/* decode the syscall's path-like arguments into t->paths / fdpath */
static void decode(struct thr *t) {
    pid_t tid = t->tid;
    unsigned long long *a = t->a;
    t->npaths = 0;
    t->fdpath[0] = 0;
    t->fdarg = -1;
    t->count = -1;
    t->flags = 0;
#define PATH_AT(dfd, addr) do { resolve_at(tid, (long)(int)(dfd), (addr), t->paths[t->npaths]); t->npaths++; } while (0)
#define FD(fd) do { t->fdarg = (long)(int)(fd); fd_to_path(tid, t->fdarg, t->fdpath, PATHMAX); } while (0)
    switch (t->nr) {
    case SYS_open: PATH_AT(AT_FDCWD, a[0]); t->flags = a[1]; break;
    case SYS_creat: PATH_AT(AT_FDCWD, a[0]); t->flags = O_CREAT | O_WRONLY | O_TRUNC; break;
    case SYS_openat: PATH_AT(a[0], a[1]); t->flags = a[2]; break;
    case 437: {
        PATH_AT(a[0], a[1]);
        unsigned long long how[3] = {0, 0, 0};
        struct iovec l = {how, sizeof how}, r = {(void *)(uintptr_t)a[2], sizeof how};
        if (process_vm_readv(tid, &l, 1, &r, 1, 0) > 0) t->flags = how[0];
        break;
    }
    case SYS_read: case SYS_pread64: case SYS_write: case SYS_pwrite64:
        FD(a[0]); t->count = a[2]; break;
    case SYS_readv: case SYS_preadv: case 327: case SYS_writev: case SYS_pwritev: case 328:
        FD(a[0]); t->count = a[2]; break;
    case SYS_rename: PATH_AT(AT_FDCWD, a[0]); PATH_AT(AT_FDCWD, a[1]); break;
    case SYS_renameat: case 316: PATH_AT(a[0], a[1]); PATH_AT(a[2], a[3]); t->flags = t->nr == 316 ? a[4] : 0; break;
    case SYS_link: PATH_AT(AT_FDCWD, a[0]); PATH_AT(AT_FDCWD, a[1]); break;
    case SYS_linkat: PATH_AT(a[0], a[1]); PATH_AT(a[2], a[3]); t->flags = a[4]; break;
    case SYS_symlink: /* target string is not a touched path */ PATH_AT(AT_FDCWD, a[1]); break;
    case SYS_symlinkat: PATH_AT(a[1], a[2]); break;
    case SYS_unlink: case SYS_rmdir: case SYS_mkdir: case SYS_stat: case SYS_lstat: case SYS_access:
    case SYS_readlink: case SYS_truncate: case SYS_chmod: case SYS_chown: case SYS_lchown:
    case SYS_utime: case SYS_utimes: case SYS_setxattr: case SYS_lsetxattr: case SYS_removexattr:
    case SYS_lremovexattr: case SYS_mknod: case SYS_chdir:
        PATH_AT(AT_FDCWD, a[0]); if (t->nr == SYS_truncate) t->count = a[1]; break;
    case SYS_unlinkat: PATH_AT(a[0], a[1]); t->flags = a[2]; break;
    case SYS_mkdirat: case SYS_faccessat: case 439: case SYS_readlinkat: case SYS_fchmodat:
    case SYS_fchownat: case SYS_futimesat: case SYS_mknodat:
        PATH_AT(a[0], a[1]); break;
    case SYS_newfstatat: PATH_AT(a[0], a[1]); t->flags = a[3]; break;
    case 332: PATH_AT(a[0], a[1]); t->flags = a[2]; break;
    case SYS_utimensat:
        if (a[1]) PATH_AT(a[0], a[1]); else FD(a[0]);
        break;
    case SYS_fstat: case SYS_getdents64: case SYS_getdents: case SYS_fsync: case SYS_fdatasync:
    case SYS_sync_file_range: case SYS_fchmod: case SYS_fchown: case SYS_fsetxattr: case SYS_fremovexattr:
        FD(a[0]); break;
    case SYS_ftruncate: FD(a[0]); t->count = a[1]; break;
    case SYS_fallocate: FD(a[0]); t->flags = a[1]; t->count = a[3]; break;
    case SYS_mmap:
        if ((int)a[4] >= 0 && !(a[3] & 0x20 /*MAP_ANONYMOUS*/)) { FD(a[4]); t->flags = (a[2] << 16) | (a[3] & 0xffff); t->count = a[1]; }
        break;
    case 326: /* copy_file_range(fd_in, off_in, fd_out, ...) */
        FD(a[2]);
        fd_to_path(tid, (long)(int)a[0], t->paths[0], PATHMAX); t->npaths = 1; t->count = a[4];
        break;
    case SYS_sendfile: /* sendfile(out_fd, in_fd, ...) */
        FD(a[0]);
        fd_to_path(tid, (long)(int)a[1], t->paths[0], PATHMAX); t->npaths = 1; t->count = a[3];
        break;
    case SYS_ioctl:
        if ((a[1] & 0xffffffffULL) == FICLONE || (a[1] & 0xffffffffULL) == FICLONERANGE) {
            FD(a[0]); t->flags = a[1] & 0xffffffffULL;
            if ((a[1] & 0xffffffffULL) == FICLONE) { fd_to_path(tid, (long)(int)a[2], t->paths[0], PATHMAX); t->npaths = 1; }
        }
        break;
    default: break;
    }
}

static void log_event(struct thr *t, long long ret, int has_ret, const char *decision) {
    if (!logf) return;
    const char *nm = scname(t->nr);
    fprintf(logf, "{\"seq\":%ld,\"n\":%ld,\"proc\":%d,\"pid\":%d,\"tid\":%d,\"name\":\"%s\",\"nr\":%ld,\"paths\":[",
            t->seq, t->visible ? t->vis_n : 0L, t->proc, t->tgid, t->tid, nm ? nm : "?", t->nr);
    for (int i = 0; i < t->npaths; i++) {
        if (i) fputc(',', logf);
        json_str(logf, t->paths[i]);
    }
    fprintf(logf, "],\"fd\":%ld,\"fd_path\":", t->fdarg);
    json_str(logf, t->fdpath);
    fprintf(logf, ",\"count\":%lld,\"flags\":%ld,\"in_op\":%s,\"visible\":%s,\"sched\":%s", t->count, t->flags,
            (t->proc >= 0 && (P[t->proc].in_op || all_in_op)) ? "true" : "false", t->visible ? "true" : "false",
            t->schedpoint ? "true" : "false");
    if (has_ret) fprintf(logf, ",\"ret\":%lld", ret);
    else fprintf(logf, ",\"ret\":null");
    if (t->inject_errno) fprintf(logf, ",\"injected\":%d", t->inject_errno);
    if (decision) fprintf(logf, ",\"decision\":\"%s\"", decision);
    fprintf(logf, "}\n");
}

static void kill_all(void) {
    killed = 1;
    for (int i = 0; i < nproc; i++)
        if (!P[i].exited) kill(P[i].tgid, SIGKILL);
    for (int i = 0; i < MAXT; i++)
        if (T[i].used) kill(T[i].tid, SIGKILL);
}

static int is_nosched(const char *nm) {
    for (int i = 0; i < nnosched; i++)
        if (!strcmp(nosched[i], nm)) return 1;
    return 0;
}

static int is_private(struct proc *p, const char *path) {
    for (int i = 0; i < p->npriv; i++)
        if (!strcmp(p->priv[i], path)) return 1;
    return 0;
}

static void drop_private(struct proc *p, const char *path) {
    for (int i = 0; i < p->npriv; i++)
        if (!strcmp(p->priv[i], path)) {
            memmove(&p->priv[i], &p->priv[i + 1], (p->npriv - i - 1) * PATHMAX);
            p->npriv--;
            return;
        }
}

static void resume(struct thr *t) {
    t->parked = 0;
    t->delayed = 0;
    if (ptrace(PTRACE_SYSCALL, t->tid, 0, 0) < 0 && errno != ESRCH) perror("PTRACE_SYSCALL");
}

/* choose and release one parked process if no process is running */
static void maybe_decide(void) {
    if (!sched_on) return;
    for (;;) {
        int enabled[MAXP], ne = 0;
        for (int i = 0; i < nproc; i++) {
            if (P[i].exited) continue;
            if (P[i].state == PS_NOTSTARTED || P[i].state == PS_RUNNING) return;
            if (P[i].state == PS_PARKED) enabled[ne++] = i;
        }
        if (ne == 0) return;
        int choice = -1;
        while (prefix_pos < nprefix) {
            int c = prefix[prefix_pos++];
            for (int k = 0; k < ne; k++)
                if (enabled[k] == c) choice = c;
            if (choice >= 0) break;
            /* prefix entry not enabled: skip it (logged) */
            if (logf) fprintf(logf, "{\"skipped_prefix\":%d,\"at_decision\":%ld}\n", c, decisions);
        }
        if (choice < 0) {
            if (tail_policy == 0) choice = enabled[0];
            else if (tail_policy == 1) {
                choice = enabled[0];
                for (int k = 0; k < ne; k++)
                    if (enabled[k] > rr_last) { choice = enabled[k]; break; }
            } else choice = enabled[rnd() % ne];
        }
        rr_last = choice;
        if (logf) {
            fprintf(logf, "{\"decision\":%ld,\"enabled\":[", decisions);
            for (int k = 0; k < ne; k++) fprintf(logf, "%s%d", k ? "," : "", enabled[k]);
            fprintf(logf, "],\"chosen\":%d}\n", choice);
        }
        decisions++;
        /* release the parked thread of the chosen process */
        struct thr *rel = NULL;
        for (int i = 0; i < MAXT; i++)
            if (T[i].used && T[i].parked && T[i].proc == choice) { rel = &T[i]; break; }
        P[choice].state = PS_RUNNING;
        if (rel) { resume(rel); return; }
        /* no parked thread found (should not happen): loop again */
    }
}

static void do_ficlone(struct thr *t) {
    char src[64], dst[64];
    snprintf(src, sizeof src, "/proc/%d/fd/%d", t->tid, (int)t->a[2]);
    snprintf(dst, sizeof dst, "/proc/%d/fd/%d", t->tid, (int)t->a[0]);
    int s = open(src, O_RDONLY), d = open(dst, O_WRONLY | O_TRUNC);
    long long rc = 0;
    if (s < 0 || d < 0) rc = -EBADF;
    else {
        char buf[65536];
        ssize_t n;
        while ((n = read(s, buf, sizeof buf)) > 0) {
            ssize_t off = 0;
            while (off < n) {
                ssize_t w = write(d, buf + off, n - off);
                if (w <= 0) { rc = -EIO; break; }
                off += w;
            }
            if (rc) break;
        }
        if (n < 0) rc = -EIO;
    }
    if (s >= 0) close(s);
    if (d >= 0) close(d);
    t->has_force_ret = 1;
    t->force_ret = rc;
}

static void set_syscall_skip(struct thr *t) {
    struct user_regs_struct r;
    if (ptrace(PTRACE_GETREGS, t->tid, 0, &r) == 0) {
        r.orig_rax = (unsigned long long)-1;
        ptrace(PTRACE_SETREGS, t->tid, 0, &r);
    }
}

/* returns 1 if the thread must stay stopped (parked/delayed), 0 to resume */
static int on_entry(struct thr *t) {
    struct user_regs_struct r;
    if (ptrace(PTRACE_GETREGS, t->tid, 0, &r) < 0) return 0;
    t->nr = (long)r.orig_rax;
    t->a[0] = r.rdi; t->a[1] = r.rsi; t->a[2] = r.rdx; t->a[3] = r.r10; t->a[4] = r.r8; t->a[5] = r.r9;
    t->in_sys = 1;
    t->visible = 0;
    t->inject_errno = 0;
    t->has_force_ret = 0;
    t->kill_at_exit = 0;
    t->schedpoint = 0;
    t->npaths = 0;
    t->seq = ++seq;
    const char *nm = scname(t->nr);
    if (!nm) { t->in_sys = 2; return 0; } /* uninteresting */
    if (t->proc < 0) { t->in_sys = 2; return 0; }
    struct proc *p = &P[t->proc];
    decode(t);
    /* markers */
    if ((t->nr == SYS_access || t->nr == SYS_faccessat || t->nr == 439) && t->npaths == 1 &&
        !strncmp(t->paths[0], "/__cv_marker__/", 15)) {
        if (!strcmp(t->paths[0] + 15, "begin")) { p->in_op = 1; p->state = PS_RUNNING; }
        else if (!strcmp(t->paths[0] + 15, "end")) { p->in_op = 0; p->state = PS_DONE; }
        if (logf) fprintf(logf, "{\"marker\":\"%s\",\"proc\":%d,\"seq\":%ld}\n", t->paths[0] + 15, t->proc, t->seq);
        t->in_sys = 2;
        maybe_decide();
        return 0;
    }
    if (t->nr == SYS_mmap && t->fdarg < 0) { t->in_sys = 2; return 0; }
    if (t->nr == SYS_ioctl && t->fdarg < 0) { t->in_sys = 2; return 0; }
    int inop = p->in_op || all_in_op;
    int vis = 0;
    if (inop) {
        for (int i = 0; i < t->npaths; i++)
            if (under_root(t->paths[i])) vis = 1;
        if (t->fdpath[0] && under_root(t->fdpath)) vis = 1;
    }
    t->visible = vis;
    if (!vis) return 0;
    t->vis_n = ++visible_count;
    /* pending "next write on this fd fails" */
    if (p->failfd >= 0 && t->fdarg == p->failfd &&
        (t->nr == SYS_write || t->nr == SYS_pwrite64 || t->nr == SYS_writev || t->nr == SYS_pwritev)) {
        t->inject_errno = p->failfd_errno;
        p->failfd = -1;
        set_syscall_skip(t);
        return 0;
    }
    /* kill */
    if (kill_at && t->vis_n == kill_at) {
        if (torn >= 0 && (t->nr == SYS_write || t->nr == SYS_pwrite64) && (long long)t->a[2] > torn) {
            r.rdx = (unsigned long long)torn;
            ptrace(PTRACE_SETREGS, t->tid, 0, &r);
            t->kill_at_exit = 1;
            return 0;
        }
        log_event(t, 0, 0, "killed_at_entry");
        kill_all();
        return 0;
    }
    /* injection */
    for (int i = 0; i < ninj; i++) {
        if (inj[i].n != t->vis_n) continue;
        if (inj[i].shortk >= 0) {
            if ((t->nr == SYS_write || t->nr == SYS_pwrite64) && (long long)t->a[2] > inj[i].shortk) {
                r.rdx = (unsigned long long)inj[i].shortk;
                ptrace(PTRACE_SETREGS, t->tid, 0, &r);
                if (inj[i].err) { /* errno 0: a plain (legal) short write, nothing fails afterwards */
                    p->failfd = (int)t->fdarg;
                    p->failfd_errno = inj[i].err;
                }
                t->count = inj[i].shortk;
            } else {
                t->inject_errno = inj[i].err;
                set_syscall_skip(t);
            }
        } else {
            t->inject_errno = inj[i].err;
            set_syscall_skip(t);
        }
        return 0;
    }
    if (emulate_ficlone && t->nr == SYS_ioctl && t->flags == FICLONE) {
        do_ficlone(t);
        set_syscall_skip(t);
        return 0;
    }
    /* scheduling */
    if (sched_on) {
        int sp = !is_nosched(nm);
        if (sp && nosched_dirs && t->npaths == 1 &&
            (t->nr == SYS_stat || t->nr == SYS_lstat || t->nr == 332 || t->nr == SYS_newfstatat ||
             t->nr == SYS_access || t->nr == SYS_faccessat || t->nr == 439)) {
            /* looking at a directory that already exists is an idempotent observation */
            struct stat stb;
            if (lstat(t->paths[0], &stb) == 0 && S_ISDIR(stb.st_mode)) sp = 0;
        }
        if (sp) {
            /* calls that only touch the process's own unpublished temp file are not scheduling points */
            int all_private = 1, any = 0;
            if (t->nr == SYS_rename || t->nr == SYS_renameat || t->nr == 316 || t->nr == SYS_link || t->nr == SYS_linkat) {
                all_private = 0; /* publishing */
            } else {
                for (int i = 0; i < t->npaths; i++) { any = 1; if (!is_private(p, t->paths[i])) all_private = 0; }
                if (t->fdpath[0]) { any = 1; if (!is_private(p, t->fdpath)) all_private = 0; }
                if (!any) all_private = 0;
                /* creation of the temp file itself: O_EXCL|O_CREAT open is private by construction */
                if ((t->nr == SYS_openat || t->nr == SYS_open) && (t->flags & O_EXCL) && (t->flags & O_CREAT)) all_private = 1;
            }
            if (all_private) sp = 0;
        }
        t->schedpoint = sp;
        if (sp) {
            t->parked = 1;
            p->state = PS_PARKED;
            maybe_decide(); /* may release this very thread; either way the caller must not resume it */
            return 1;
        }
    }
    if (delay_on) {
        long us = (long)(rnd() % (unsigned long long)(delay_max_us + 1));
        if (us > 0) {
            clock_gettime(CLOCK_MONOTONIC, &t->release);
            t->release.tv_nsec += (us % 1000000) * 1000L;
            t->release.tv_sec += us / 1000000 + t->release.tv_nsec / 1000000000L;
            t->release.tv_nsec %= 1000000000L;
            t->delayed = 1;
            return 1;
        }
    }
    return 0;
}

static void on_exit_stop(struct thr *t) {
    if (t->in_sys == 2) { t->in_sys = 0; return; }
    t->in_sys = 0;
    struct user_regs_struct r;
    if (ptrace(PTRACE_GETREGS, t->tid, 0, &r) < 0) return;
    long long ret = (long long)r.rax;
    if (t->inject_errno) {
        r.rax = (unsigned long long)(long long)(-t->inject_errno);
        ptrace(PTRACE_SETREGS, t->tid, 0, &r);
        ret = -t->inject_errno;
    } else if (t->has_force_ret) {
        r.rax = (unsigned long long)t->force_ret;
        ptrace(PTRACE_SETREGS, t->tid, 0, &r);
        ret = t->force_ret;
    }
    if (t->proc >= 0) {
        struct proc *p = &P[t->proc];
        /* private temp file tracking */
        if ((t->nr == SYS_openat || t->nr == SYS_open) && ret >= 0 && (t->flags & O_EXCL) && (t->flags & O_CREAT) &&
            t->npaths == 1 && p->npriv < 16) {
            strcpy(p->priv[p->npriv++], t->paths[0]);
        }
        if ((t->nr == SYS_rename || t->nr == SYS_renameat || t->nr == 316) && ret == 0 && t->npaths == 2)
            drop_private(p, t->paths[0]);
        if ((t->nr == SYS_unlink || t->nr == SYS_unlinkat) && ret == 0 && t->npaths == 1)
            drop_private(p, t->paths[0]);
    }
    if (t->visible || (logf && t->proc >= 0 && scname(t->nr) && (P[t->proc].in_op || all_in_op)))
        log_event(t, ret, 1, t->kill_at_exit ? "torn_then_killed" : NULL);
    if (t->kill_at_exit) kill_all();
}

static void parse_list(const char *s) {
    char tmp[4096];
    strncpy(tmp, s, sizeof tmp - 1);
    tmp[sizeof tmp - 1] = 0;
    char *save = NULL;
    for (char *tok = strtok_r(tmp, ",", &save); tok; tok = strtok_r(NULL, ",", &save))
        if (nnosched < 64) { strncpy(nosched[nnosched], tok, 31); nnosched++; }
}

int main(int argc, char **argv) {
    int i = 1;
    const char *logpath = NULL;
    for (; i < argc; i++) {
        if (!strcmp(argv[i], "--")) { i++; break; }
        else if (!strcmp(argv[i], "--log") && i + 1 < argc) logpath = argv[++i];
        else if (!strcmp(argv[i], "--root") && i + 1 < argc) {
            if (nroots < MAXROOT) { strncpy(roots[nroots], argv[++i], PATHMAX - 1); normalize(roots[nroots]); nroots++; }
        } else if (!strcmp(argv[i], "--kill-at") && i + 1 < argc) kill_at = atol(argv[++i]);
        else if (!strcmp(argv[i], "--torn") && i + 1 < argc) torn = atoll(argv[++i]);
        else if (!strcmp(argv[i], "--inject") && i + 1 < argc) {
            long n; int e;
            if (sscanf(argv[++i], "%ld:%d", &n, &e) == 2 && ninj < MAXINJ) { inj[ninj].n = n; inj[ninj].err = e; inj[ninj].shortk = -1; ninj++; }
        } else if (!strcmp(argv[i], "--short") && i + 1 < argc) {
            long n; long long k; int e;
            if (sscanf(argv[++i], "%ld:%lld:%d", &n, &k, &e) == 3 && ninj < MAXINJ) { inj[ninj].n = n; inj[ninj].err = e; inj[ninj].shortk = k; ninj++; }
        } else if (!strcmp(argv[i], "--sched") && i + 1 < argc) {
            sched_on = 1;
            char *s = argv[++i], *save = NULL;
            char *tmp = strdup(s);
            for (char *tok = strtok_r(tmp, ",", &save); tok; tok = strtok_r(NULL, ",", &save))
                if (*tok && nprefix < 65536) prefix[nprefix++] = atoi(tok);
            free(tmp);
        } else if (!strcmp(argv[i], "--tail") && i + 1 < argc) {
            const char *s = argv[++i];
            if (!strcmp(s, "first")) tail_policy = 0;
            else if (!strcmp(s, "rr")) tail_policy = 1;
            else if (!strncmp(s, "rand:", 5)) { tail_policy = 2; rngstate ^= strtoull(s + 5, NULL, 10) * 0x9E3779B97F4A7C15ULL + 1; for (int k = 0; k < 4; k++) rnd(); }
        } else if (!strcmp(argv[i], "--nosched") && i + 1 < argc) parse_list(argv[++i]);
        else if (!strcmp(argv[i], "--delay") && i + 1 < argc) {
            unsigned long long sd; long mx;
            if (sscanf(argv[++i], "%llu:%ld", &sd, &mx) == 2) { delay_on = 1; delay_max_us = mx; rngstate ^= sd * 0x9E3779B97F4A7C15ULL + 1; for (int k = 0; k < 4; k++) rnd(); }
        } else if (!strcmp(argv[i], "--emulate-ficlone")) emulate_ficlone = 1;
        else if (!strcmp(argv[i], "--timeout") && i + 1 < argc) timeout_s = atoi(argv[++i]);
        else if (!strcmp(argv[i], "--stdout-prefix") && i + 1 < argc) strncpy(stdout_prefix, argv[++i], PATHMAX - 1);
        else if (!strcmp(argv[i], "--all-in-op")) all_in_op = 1;
        else if (!strcmp(argv[i], "--nosched-dirs")) nosched_dirs = 1;
        else die("unknown option %s", argv[i]);
    }
    if (i >= argc) die("no command");
    if (logpath) {
        logf = fopen(logpath, "w");
        if (!logf) die("cannot open log %s", logpath);
        setvbuf(logf, NULL, _IOFBF, 1 << 16);
    }
    /* split commands at '---' */
    char **cmds[MAXP];
    int nc = 0;
    cmds[nc++] = &argv[i];
    for (int k = i; k < argc; k++)
        if (!strcmp(argv[k], "---")) {
            argv[k] = NULL;
            if (nc < MAXP && k + 1 < argc) cmds[nc++] = &argv[k + 1];
        }
    nproc = nc;
    struct sigaction sa;
    memset(&sa, 0, sizeof sa);
    sa.sa_handler = on_alarm;
    sigaction(SIGALRM, &sa, NULL);
    for (int c = 0; c < nc; c++) {
        pid_t pid = fork();
        if (pid < 0) die("fork");
        if (pid == 0) {
            if (stdout_prefix[0]) {
                char op[PATHMAX + 16];
                snprintf(op, sizeof op, "%s.%d", stdout_prefix, c);
                int fd = open(op, O_WRONLY | O_CREAT | O_TRUNC, 0644);
                if (fd >= 0) { dup2(fd, 1); close(fd); }
            }
            ptrace(PTRACE_TRACEME, 0, 0, 0);
            raise(SIGSTOP);
            execvp(cmds[c][0], cmds[c]);
            _exit(127);
        }
        int st;
        if (waitpid(pid, &st, __WALL) < 0 || !WIFSTOPPED(st)) die("child did not stop");
        if (ptrace(PTRACE_SETOPTIONS, pid, 0,
                   PTRACE_O_TRACESYSGOOD | PTRACE_O_TRACECLONE | PTRACE_O_TRACEFORK | PTRACE_O_TRACEVFORK |
                       PTRACE_O_TRACEEXEC | PTRACE_O_EXITKILL) < 0)
            die("PTRACE_SETOPTIONS: %s", strerror(errno));
        memset(&P[c], 0, sizeof P[c]);
        P[c].tgid = pid;
        P[c].state = all_in_op ? PS_RUNNING : PS_NOTSTARTED;
        P[c].failfd = -1;
        struct thr *t = add_thr(pid, c);
        t->proc = c;
        t->tgid = pid;
    }
    for (int c = 0; c < nc; c++) ptrace(PTRACE_SYSCALL, P[c].tgid, 0, 0);
    alarm(timeout_s);
    int live = nc;
    int timed_out = 0;
    while (live > 0) {
        int st;
        int anydelayed = 0;
        for (int k = 0; k < MAXT; k++)
            if (T[k].used && T[k].delayed) { anydelayed = 1; break; }
        pid_t w = waitpid(-1, &st, __WALL | (anydelayed ? WNOHANG : 0));
        if (alarmed) {
            timed_out = 1;
            if (logf) fprintf(logf, "{\"timeout\":true}\n");
            kill_all();
            alarmed = 0;
            alarm(5);
            if (timed_out > 1) break;
            continue;
        }
        if (w == 0) {
            /* release due delayed threads */
            struct timespec now;
            clock_gettime(CLOCK_MONOTONIC, &now);
            for (int k = 0; k < MAXT; k++)
                if (T[k].used && T[k].delayed &&
                    (now.tv_sec > T[k].release.tv_sec ||
                     (now.tv_sec == T[k].release.tv_sec && now.tv_nsec >= T[k].release.tv_nsec)))
                    resume(&T[k]);
            struct timespec ts = {0, 20000};
            nanosleep(&ts, NULL);
            continue;
        }
        if (w < 0) {
            if (errno == EINTR) continue;
            if (errno == ECHILD) break;
            die("waitpid: %s", strerror(errno));
        }
        struct thr *t = find_thr(w);
        if (WIFEXITED(st) || WIFSIGNALED(st)) {
            if (t) {
                int pi = t->proc;
                int was_parked = t->parked;
                t->used = 0;
                if (pi >= 0 && P[pi].tgid == w) {
                    P[pi].exited = 1;
                    P[pi].state = PS_DONE;
                    P[pi].exit_status = WIFEXITED(st) ? WEXITSTATUS(st) : 128 + WTERMSIG(st);
                    live--;
                }
                (void)was_parked;
                if (!killed) maybe_decide();
            }
            continue;
        }
        if (!WIFSTOPPED(st)) continue;
        if (!t) {
            /* new thread/process announced before its creator's event: adopt */
            t = add_thr(w, -1);
        }
        int sig = WSTOPSIG(st);
        int event = (st >> 16) & 0xff;
        if (sig == (SIGTRAP | 0x80)) {
            struct ptrace_syscall_info info;
            memset(&info, 0, sizeof info);
            long rc = ptrace(PTRACE_GET_SYSCALL_INFO, w, sizeof info, &info);
            int hold = 0;
            if (rc > 0 && info.op == PTRACE_SYSCALL_INFO_ENTRY) {
                if (t->proc < 0) { t->tgid = read_tgid(w); t->proc = proc_of_tgid(t->tgid); }
                if (!killed) hold = on_entry(t);
            } else if (rc > 0 && info.op == PTRACE_SYSCALL_INFO_EXIT) {
                if (!killed) on_exit_stop(t);
            }
            if (!hold) ptrace(PTRACE_SYSCALL, w, 0, 0);
            continue;
        }
        if (sig == SIGTRAP && event) {
            if (event == PTRACE_EVENT_CLONE || event == PTRACE_EVENT_FORK || event == PTRACE_EVENT_VFORK) {
                unsigned long newtid = 0;
                ptrace(PTRACE_GETEVENTMSG, w, 0, &newtid);
                struct thr *nt = add_thr((pid_t)newtid, t->proc);
                if (nt->proc < 0) nt->proc = t->proc;
            }
            ptrace(PTRACE_SYSCALL, w, 0, 0);
            continue;
        }
        if (sig == SIGSTOP && t && !t->in_sys && t->seq == 0) {
            /* initial stop of a freshly cloned thread */
            ptrace(PTRACE_SYSCALL, w, 0, 0);
            continue;
        }
        /* deliver other signals */
        ptrace(PTRACE_SYSCALL, w, 0, (sig == SIGTRAP) ? 0 : sig);
    }
    alarm(0);
    if (logf) {
        fprintf(logf, "{\"final\":{\"visible\":%ld,\"decisions\":%ld,\"killed\":%s,\"timeout\":%s,\"exit\":[",
                visible_count, decisions, killed ? "true" : "false", timed_out ? "true" : "false");
        for (int c = 0; c < nc; c++) fprintf(logf, "%s%d", c ? "," : "", P[c].exit_status);
        fprintf(logf, "]}}\n");
        fclose(logf);
    }
    if (timed_out) return 3;
    return 0;
}
