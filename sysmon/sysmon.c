/* placeholder, replaced by the real supervisor */
int main(void){return 0;}
