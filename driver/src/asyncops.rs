//! Async halves of the op table (compiled against async-std or tokio).

use crate::*;
use futures::FutureExt;
use serde_json::{json, Value};
use std::path::Path;

#[cfg(feature = "astd")]
use futures::io::{AsyncReadExt, AsyncWriteExt};
#[cfg(feature = "tok")]
use tokio::io::{AsyncReadExt, AsyncWriteExt};

#[cfg(feature = "tok")]
static RT: std::sync::OnceLock<tokio::runtime::Runtime> = std::sync::OnceLock::new();

pub fn init_runtime() {
    #[cfg(feature = "tok")]
    {
        let threads: usize = std::env::var("CV_TOKIO_WORKERS")
            .ok()
            .and_then(|x| x.parse().ok())
            .unwrap_or(2);
        let rt = if threads == 0 {
            tokio::runtime::Builder::new_current_thread().enable_all().build()
        } else {
            tokio::runtime::Builder::new_multi_thread()
                .worker_threads(threads)
                .enable_all()
                .build()
        }
        .expect("tokio runtime");
        let _ = RT.set(rt);
    }
}

#[cfg(feature = "astd")]
pub fn block_on<F: std::future::Future>(f: F) -> F::Output {
    async_std::task::block_on(f)
}

#[cfg(feature = "tok")]
pub fn block_on<F: std::future::Future>(f: F) -> F::Output {
    RT.get().expect("runtime").block_on(f)
}

#[cfg(feature = "astd")]
async fn close_writer(w: &mut cacache::Writer) -> std::io::Result<()> {
    w.close().await
}
#[cfg(feature = "tok")]
async fn close_writer(w: &mut cacache::Writer) -> std::io::Result<()> {
    w.shutdown().await
}

async fn async_writer(req: &Value) -> R {
    let cache_pb = pth(req, "cache");
    let cache = cache_pb.as_path();
    let opts_v = req.get("opts");
    let chunks = chunks_of(req);
    let flush_after = usize_list(req, "flush_after");
    let fin = if has(req, "final") { s(req, "final") } else { "commit" };
    let create = req.get("create").and_then(|x| x.as_bool()).unwrap_or(false);
    let mut w = if create {
        let algo = opts_v.and_then(|o| o.get("algo")).and_then(|a| a.as_str());
        match algo {
            Some(a) => cacache::Writer::create_with_algo(parse_algo(a), cache, s(req, "key")).await,
            None => cacache::Writer::create(cache, s(req, "key")).await,
        }
    } else if has(req, "key") {
        build_opts(opts_v).open(cache, s(req, "key")).await
    } else {
        build_opts(opts_v).open_hash(cache).await
    }
    .map_err(|e| staged(err_json(&e), "open"))?;
    let mut calls = 0u64;
    let mut total = 0usize;
    let busy_at: Option<usize> = if fin == "busy_drop" {
        Some(chunks.len().saturating_sub(1))
    } else {
        None
    };
    let after_err = if has(req, "after_write_error") { s(req, "after_write_error") } else { "fail" };
    let mut write_errors: Vec<Value> = Vec::new();
    let mut stop = false;
    let use_write_all = req.get("use_write_all").and_then(|x| x.as_bool()).unwrap_or(false);
    let cancels: Vec<(usize, Vec<u8>)> = req
        .get("cancel_before")
        .and_then(|x| x.as_array())
        .map(|a| {
            a.iter()
                .map(|p| (p[0].as_u64().unwrap_or(0) as usize, get_data(&p[1])))
                .collect()
        })
        .unwrap_or_default();
    let mut cancelled: Vec<Value> = Vec::new();
    if req.get("vectored").and_then(|x| x.as_bool()).unwrap_or(false) {
        let mut slices: Vec<std::io::IoSlice> = chunks.iter().map(|c| std::io::IoSlice::new(c)).collect();
        let mut bufs = &mut slices[..];
        while bufs.iter().any(|b| !b.is_empty()) {
            let n = w
                .write_vectored(bufs)
                .await
                .map_err(|e| staged(ioerr_json(&e), "write_vectored"))?;
            calls += 1;
            total += n;
            if n == 0 {
                return Err(json!({"variant":"StdIo","kind":"WriteZero","stage":"write_vectored"}));
            }
            std::io::IoSlice::advance_slices(&mut bufs, n);
        }
    } else {
        for (i, c) in chunks.iter().enumerate() {
            if busy_at == Some(i) {
                // start the write, poll it exactly once, abandon future and writer
                let polled = w.write(&c[..]).now_or_never().is_some();
                drop(w);
                return Ok(json!({"dropped":true,"busy":!polled,"written":total,"calls":calls}));
            }
            // "cancel_before": [[i, data], ...]  =>  before chunk i, a write of `data` is started, polled once and
            // its future dropped (a timeout or select! that lost); the writer itself stays in use
            for cb in cancels.iter().filter(|cb| cb.0 == i) {
                let done = w.write(&cb.1[..]).now_or_never().is_some();
                cancelled.push(json!({"before":i,"len":cb.1.len(),"completed_at_once":done}));
            }
            if use_write_all {
                w.write_all(&c[..])
                    .await
                    .map_err(|e| staged(ioerr_json(&e), &format!("write_all[{i}]")))?;
                calls += 1;
                total += c.len();
                if flush_after.contains(&i) {
                    w.flush()
                        .await
                        .map_err(|e| staged(ioerr_json(&e), &format!("flush[{i}]")))?;
                }
                continue;
            }
            let mut off = 0usize;
            let mut retried = false;
            loop {
                let n = match w.write(&c[off..]).await {
                    Ok(n) => n,
                    Err(e) => {
                        let ej = staged(ioerr_json(&e), &format!("write[{i}]"));
                        if after_err == "retry" && !retried {
                            retried = true;
                            write_errors.push(ej);
                            continue;
                        }
                        if after_err == "commit" {
                            write_errors.push(ej);
                            stop = true;
                            break;
                        }
                        return Err(ej);
                    }
                };
                calls += 1;
                off += n;
                total += n;
                if off >= c.len() {
                    break;
                }
                if n == 0 {
                    return Err(json!({"variant":"StdIo","kind":"WriteZero","stage":format!("write[{i}]")}));
                }
            }
            if stop {
                break;
            }
            if flush_after.contains(&i) {
                w.flush()
                    .await
                    .map_err(|e| staged(ioerr_json(&e), &format!("flush[{i}]")))?;
            }
        }
    }
    match fin {
        "drop" | "busy_drop" => {
            drop(w);
            Ok(json!({"dropped":true,"written":total,"calls":calls}))
        }
        "flush_drop" => {
            let r = w.flush().await;
            drop(w);
            r.map_err(|e| staged(ioerr_json(&e), "flush"))?;
            Ok(json!({"dropped":true,"written":total,"calls":calls}))
        }
        "close_drop" => {
            let r = close_writer(&mut w).await;
            drop(w);
            r.map_err(|e| staged(ioerr_json(&e), "close"))?;
            Ok(json!({"dropped":true,"closed":true,"written":total,"calls":calls}))
        }
        "close_commit" => {
            close_writer(&mut w)
                .await
                .map_err(|e| staged(ioerr_json(&e), "close"))?;
            let sri = w.commit().await.map_err(|e| staged(err_json(&e), "commit"))?;
            Ok(json!({"sri":sri.to_string(),"written":total,"calls":calls}))
        }
        _ => {
            pause_before_commit(req);
            let cw0 = wall_ms();
            let sri = w.commit().await.map_err(|e| commit_err(&e, cache, req))?;
            Ok(json!({"sri":sri.to_string(),"written":total,"calls":calls,"commit_w0":cw0.to_string(),
                      "write_errors":write_errors,"cancelled":cancelled}))
        }
    }
}

thread_local! {
    static ASYNC_HANDLES: std::cell::RefCell<std::collections::HashMap<String, cacache::Writer>> =
        std::cell::RefCell::new(std::collections::HashMap::new());
}

async fn async_handle(req: &Value) -> R {
    let wid = s(req, "wid").to_string();
    let cache_pb = pth(req, "cache");
    let cache = cache_pb.as_path();
    match s(req, "op") {
        "wh_open" => {
            let opts_v = req.get("opts");
            let w = if has(req, "key") {
                build_opts(opts_v).open(cache, s(req, "key")).await
            } else {
                build_opts(opts_v).open_hash(cache).await
            }
            .map_err(|e| staged(err_json(&e), "open"))?;
            ASYNC_HANDLES.with(|h| h.borrow_mut().insert(wid, w));
            Ok(json!({"opened":true}))
        }
        "wh_write" => {
            let mut w = ASYNC_HANDLES
                .with(|h| h.borrow_mut().remove(&wid))
                .ok_or_else(|| no_handle(&wid))?;
            let c = get_data(&req["data"]);
            if req.get("cancel").and_then(|x| x.as_bool()).unwrap_or(false) {
                // start the write, poll it exactly once, drop the FUTURE (a timeout / select! that lost) and keep
                // the writer for further use
                let polled = w.write(&c[..]).now_or_never();
                let done = polled.is_some();
                ASYNC_HANDLES.with(|h| h.borrow_mut().insert(wid, w));
                return Ok(json!({"cancelled":true,"completed_at_once":done}));
            }
            let mut off = 0usize;
            let mut calls = 0u64;
            let mut res: R = Ok(Value::Null);
            while off < c.len() {
                match w.write(&c[off..]).await {
                    Ok(0) => {
                        res = Err(json!({"variant":"StdIo","kind":"WriteZero","stage":"write"}));
                        break;
                    }
                    Ok(n) => {
                        off += n;
                        calls += 1;
                    }
                    Err(e) => {
                        res = Err(staged(ioerr_json(&e), "write"));
                        break;
                    }
                }
            }
            if res.is_ok() && req.get("flush").and_then(|x| x.as_bool()).unwrap_or(false) {
                if let Err(e) = w.flush().await {
                    res = Err(staged(ioerr_json(&e), "flush"));
                }
            }
            ASYNC_HANDLES.with(|h| h.borrow_mut().insert(wid, w));
            res.map(|_| json!({"written":off,"calls":calls}))
        }
        _ => {
            let w = ASYNC_HANDLES
                .with(|h| h.borrow_mut().remove(&wid))
                .ok_or_else(|| no_handle(&wid))?;
            if s(req, "final") == "drop" {
                drop(w);
                return Ok(json!({"dropped":true}));
            }
            let sri = w.commit().await.map_err(|e| commit_err(&e, cache, req))?;
            Ok(json!({"sri":sri.to_string()}))
        }
    }
}

async fn async_reader(req: &Value) -> R {
    let cache_pb = pth(req, "cache");
    let cache = cache_pb.as_path();
    let mut r = if has(req, "key") {
        cacache::Reader::open(cache, s(req, "key")).await
    } else {
        cacache::Reader::open_hash(cache, sri_of(req, "sri")?).await
    }
    .map_err(|e| staged(err_json(&e), "open"))?;
    let mut bufs = usize_list(req, "bufs");
    if !bufs.iter().any(|&b| b > 0) {
        bufs = vec![8192];
    }
    let mut out = Vec::new();
    let mut i = 0usize;
    let mut reads = 0u64;
    let to_end_after = req.get("to_end_after").and_then(|x| x.as_u64());
    loop {
        if to_end_after == Some(reads) {
            r.read_to_end(&mut out)
                .await
                .map_err(|e| staged(ioerr_json(&e), "read_to_end"))?;
            break;
        }
        let sz = bufs[i % bufs.len()];
        i += 1;
        let mut b = vec![0u8; sz];
        let n = r
            .read(&mut b)
            .await
            .map_err(|e| staged(ioerr_json(&e), "read"))?;
        reads += 1;
        if sz > 0 && n == 0 {
            break;
        }
        out.extend_from_slice(&b[..n]);
    }
    let check = req.get("check").and_then(|x| x.as_bool()).unwrap_or(true);
    if check {
        let algo = r.check().map_err(|e| staged(err_json(&e), "check"))?;
        Ok(json!({"data":put_data(&out),"checked":true,"algo":algo.to_string(),"reads":reads}))
    } else {
        Ok(json!({"data":put_data(&out),"checked":false,"reads":reads}))
    }
}

async fn async_linker(req: &Value) -> R {
    let cache_pb = pth(req, "cache");
    let cache = cache_pb.as_path();
    let target_pb = pth(req, "target");
    let target = target_pb.as_path();
    let via = if has(req, "via") { s(req, "via") } else { "fn" };
    let keyed = has(req, "key");
    if via == "fn" {
        let r = if keyed {
            cacache::link_to(cache, s(req, "key"), target).await
        } else {
            cacache::link_to_hash(cache, target).await
        };
        return r
            .map(|i| json!({"sri":i.to_string()}))
            .map_err(|e| staged(err_json(&e), "link"));
    }
    let mut l = if via == "open" {
        if keyed {
            cacache::ToLinker::open(cache, s(req, "key"), target).await
        } else {
            cacache::ToLinker::open_hash(cache, target).await
        }
    } else if keyed {
        build_opts(req.get("opts")).link_to(cache, s(req, "key"), target).await
    } else {
        build_opts(req.get("opts")).link_to_hash(cache, target).await
    }
    .map_err(|e| staged(err_json(&e), "open"))?;
    let mut got = Vec::new();
    for sz in usize_list(req, "reads") {
        let mut b = vec![0u8; sz];
        let n = l
            .read(&mut b)
            .await
            .map_err(|e| staged(ioerr_json(&e), "read"))?;
        got.extend_from_slice(&b[..n]);
    }
    if req.get("then_to_end").and_then(|x| x.as_bool()).unwrap_or(false) {
        l.read_to_end(&mut got)
            .await
            .map_err(|e| staged(ioerr_json(&e), "read_to_end"))?;
    }
    if s(req, "final") == "drop" {
        drop(l);
        return Ok(json!({"dropped":true,"read":put_data(&got)}));
    }
    let sri = l.commit().await.map_err(|e| staged(err_json(&e), "commit"))?;
    Ok(json!({"sri":sri.to_string(),"read":put_data(&got)}))
}

pub async fn exec_async(req: &Value) -> R {
    let op = s(req, "op");
    let cache_pb = pth(req, "cache");
    let cache = cache_pb.as_path();
    let ce = |e: cacache::Error| err_json(&e);
    match op {
        "write" => {
            let data = get_data(&req["data"]);
            let r = if has(req, "algo") {
                cacache::write_with_algo(parse_algo(s(req, "algo")), cache, s(req, "key"), &data).await
            } else {
                cacache::write(cache, s(req, "key"), &data).await
            };
            r.map(|i| json!({"sri":i.to_string()})).map_err(ce)
        }
        "write_hash" => {
            let data = get_data(&req["data"]);
            let r = if has(req, "algo") {
                cacache::write_hash_with_algo(parse_algo(s(req, "algo")), cache, &data).await
            } else {
                cacache::write_hash(cache, &data).await
            };
            r.map(|i| json!({"sri":i.to_string()})).map_err(ce)
        }
        "writer" => async_writer(req).await,
        "wh_open" | "wh_write" | "wh_final" => async_handle(req).await,
        "read" => cacache::read(cache, s(req, "key"))
            .await
            .map(|d| json!({"data":put_data(&d)}))
            .map_err(ce),
        "read_hash" => cacache::read_hash(cache, &sri_of(req, "sri")?)
            .await
            .map(|d| json!({"data":put_data(&d)}))
            .map_err(ce),
        "reader" => async_reader(req).await,
        "copy" => cacache::copy(cache, s(req, "key"), pth(req, "to"))
            .await
            .map(|n| json!({"n":n}))
            .map_err(ce),
        "copy_hash" => cacache::copy_hash(cache, &sri_of(req, "sri")?, pth(req, "to"))
            .await
            .map(|n| json!({"n":n}))
            .map_err(ce),
        "copy_unchecked" => cacache::copy_unchecked(cache, s(req, "key"), pth(req, "to"))
            .await
            .map(|n| json!({"n":n}))
            .map_err(ce),
        "copy_hash_unchecked" => cacache::copy_hash_unchecked(cache, &sri_of(req, "sri")?, pth(req, "to"))
            .await
            .map(|n| json!({"n":n}))
            .map_err(ce),
        "hard_link" => cacache::hard_link(cache, s(req, "key"), pth(req, "to"))
            .await
            .map(|_| json!({}))
            .map_err(ce),
        "reflink" => cacache::reflink(cache, s(req, "key"), pth(req, "to"))
            .await
            .map(|_| json!({}))
            .map_err(ce),
        "reflink_hash" => cacache::reflink_hash(cache, &sri_of(req, "sri")?, pth(req, "to"))
            .await
            .map(|_| json!({}))
            .map_err(ce),
        "reflink_unchecked" => cacache::reflink_unchecked(cache, s(req, "key"), pth(req, "to"))
            .await
            .map(|_| json!({}))
            .map_err(ce),
        "metadata" => cacache::metadata(cache, s(req, "key"))
            .await
            .map(|m| json!({"entry": m.as_ref().map(meta_json)}))
            .map_err(ce),
        "exists" => Ok(json!({"exists": cacache::exists(cache, &sri_of(req, "sri")?).await})),
        "remove" => cacache::remove(cache, s(req, "key")).await.map(|_| json!({})).map_err(ce),
        "remove_hash" => cacache::remove_hash(cache, &sri_of(req, "sri")?)
            .await
            .map(|_| json!({}))
            .map_err(ce),
        "remove_fully" => cacache::RemoveOpts::new()
            .remove_fully(true)
            .remove(cache, s(req, "key"))
            .await
            .map(|_| json!({}))
            .map_err(ce),
        "remove_opts" => cacache::RemoveOpts::new()
            .remove_fully(false)
            .remove(cache, s(req, "key"))
            .await
            .map(|_| json!({}))
            .map_err(ce),
        "clear" => cacache::clear(cache).await.map(|_| json!({})).map_err(ce),
        "index_insert" => {
            cacache::index::insert_async(cache, s(req, "key"), build_opts(req.get("opts")))
                .await
                .map(|i| json!({"sri":i.to_string()}))
                .map_err(ce)
        }
        "index_find" => cacache::index::find_async(cache, s(req, "key"))
            .await
            .map(|m| json!({"entry": m.as_ref().map(meta_json)}))
            .map_err(ce),
        "index_delete" => cacache::index::delete_async(cache, s(req, "key"))
            .await
            .map(|_| json!({}))
            .map_err(ce),
        "link_to" | "linker" => async_linker(req).await,
        // entry points that only exist synchronously: say so, the caller decides
        "list" | "index_ls" | "hard_link_hash" | "hard_link_unchecked" | "hard_link_hash_unchecked"
        | "reflink_hash_unchecked" => Err(json!({"variant":"HarnessSyncOnly","op":op})),
        _ => Err(json!({"variant":"HarnessUnknownOp","op":op})),
    }
}

/// One request inside an async task: same response shape as `exec_one`.
async fn exec_one_async(req: Value) -> Value {
    let t0 = now_ns();
    let w0 = wall_ms();
    let mode = if has(&req, "mode") { s(&req, "mode").to_string() } else { "async".to_string() };
    let res = if mode == "sync" {
        std::panic::catch_unwind(std::panic::AssertUnwindSafe(|| exec_sync(&req)))
    } else {
        std::panic::AssertUnwindSafe(exec_async(&req)).catch_unwind().await
    };
    let t1 = now_ns();
    let w1 = wall_ms();
    let mut m = serde_json::Map::new();
    if let Some(id) = req.get("id") {
        m.insert("id".into(), id.clone());
    }
    m.insert("t0".into(), json!(t0));
    m.insert("t1".into(), json!(t1));
    m.insert("w0".into(), json!(w0.to_string()));
    m.insert("w1".into(), json!(w1.to_string()));
    match res {
        Ok(Ok(v)) => {
            m.insert("ok".into(), v);
        }
        Ok(Err(e)) => {
            m.insert("err".into(), e);
        }
        Err(p) => {
            let msg = if let Some(x) = p.downcast_ref::<&str>() {
                x.to_string()
            } else if let Some(x) = p.downcast_ref::<String>() {
                x.clone()
            } else {
                "non-string panic payload".to_string()
            };
            m.insert("panic".into(), json!({"msg":msg}));
        }
    }
    Value::Object(m)
}

async fn run_program(p: Vec<Value>) -> Vec<Value> {
    let mut out = Vec::with_capacity(p.len());
    for r in p {
        out.push(exec_one_async(r).await);
    }
    out
}

pub async fn exec_parallel_async(req: &Value) -> R {
    let progs: Vec<Vec<Value>> = req["programs"]
        .as_array()
        .map(|a| a.iter().map(|p| p.as_array().cloned().unwrap_or_default()).collect())
        .unwrap_or_default();
    let mut out = Vec::new();
    #[cfg(feature = "astd")]
    {
        let hs: Vec<_> = progs
            .into_iter()
            .map(|p| async_std::task::spawn(run_program(p)))
            .collect();
        for h in hs {
            out.push(Value::Array(h.await));
        }
    }
    #[cfg(feature = "tok")]
    {
        let hs: Vec<_> = progs.into_iter().map(|p| tokio::spawn(run_program(p))).collect();
        for h in hs {
            match h.await {
                Ok(v) => out.push(Value::Array(v)),
                Err(e) => out.push(json!({"panic": e.to_string()})),
            }
        }
    }
    Ok(json!({"results": out}))
}
