//! cdrv — a thin, oracle-free executor of cacache API operations.
//!
//! One JSON request per line on stdin (server mode) or in a script file
//! (`cdrv run <script> [<out>]`), one JSON response per line. Every operation
//! runs inside `catch_unwind`; nothing here judges a result.
//!
//! Build flavours (cargo features): `astd` (async-std), `tok` (tokio), none
//! (sync only); `mmap` forwards to cacache's `mmap` feature.

use serde_json::{json, Map, Value};
use std::io::{BufRead, Read, Write};
use std::path::{Path, PathBuf};
use std::sync::atomic::{AtomicBool, AtomicU64, Ordering};
use std::sync::Mutex;

#[cfg(any(feature = "astd", feature = "tok"))]
mod asyncops;

// ---------------------------------------------------------------- helpers

pub fn hex_enc(b: &[u8]) -> String {
    const T: &[u8; 16] = b"0123456789abcdef";
    let mut s = String::with_capacity(b.len() * 2);
    for x in b {
        s.push(T[(x >> 4) as usize] as char);
        s.push(T[(x & 15) as usize] as char);
    }
    s
}

pub fn hex_dec(s: &str) -> Vec<u8> {
    let b = s.as_bytes();
    let v = |c: u8| -> u8 {
        match c {
            b'0'..=b'9' => c - b'0',
            b'a'..=b'f' => c - b'a' + 10,
            b'A'..=b'F' => c - b'A' + 10,
            _ => 0,
        }
    };
    let mut out = Vec::with_capacity(b.len() / 2);
    let mut i = 0;
    while i + 1 < b.len() {
        out.push((v(b[i]) << 4) | v(b[i + 1]));
        i += 2;
    }
    out
}

pub type R = Result<Value, Value>;

pub fn now_ns() -> u64 {
    let mut ts = libc::timespec {
        tv_sec: 0,
        tv_nsec: 0,
    };
    unsafe {
        libc::clock_gettime(libc::CLOCK_MONOTONIC, &mut ts);
    }
    (ts.tv_sec as u64) * 1_000_000_000 + ts.tv_nsec as u64
}

pub fn wall_ms() -> u128 {
    std::time::SystemTime::now()
        .duration_since(std::time::UNIX_EPOCH)
        .map(|d| d.as_millis())
        .unwrap_or(0)
}

static OUT_DIR: Mutex<Option<PathBuf>> = Mutex::new(None);
static OUT_CTR: AtomicU64 = AtomicU64::new(0);
static MARKERS: AtomicBool = AtomicBool::new(false);
const INLINE_MAX: usize = 4096;

pub fn marker(which: &str) {
    if MARKERS.load(Ordering::Relaxed) {
        let p = std::ffi::CString::new(format!("/__cv_marker__/{which}")).unwrap();
        unsafe {
            libc::access(p.as_ptr(), 0);
        }
    }
}

/// Decode a data spec: {"hex":..} | {"file":..} | {"rep":[byte,len]} | "hexstring".
pub fn get_data(v: &Value) -> Vec<u8> {
    if let Some(s) = v.as_str() {
        return hex_dec(s);
    }
    if let Some(s) = v.get("hex").and_then(|x| x.as_str()) {
        return hex_dec(s);
    }
    if let Some(p) = v.get("file").and_then(|x| x.as_str()) {
        return std::fs::read(p).unwrap_or_else(|e| panic!("harness: cannot read data file {p}: {e}"));
    }
    if let Some(a) = v.get("rep").and_then(|x| x.as_array()) {
        let b = a[0].as_u64().unwrap_or(0) as u8;
        let n = a[1].as_u64().unwrap_or(0) as usize;
        return vec![b; n];
    }
    Vec::new()
}

/// Encode result bytes: inline hex when small, otherwise a file in the out dir.
pub fn put_data(b: &[u8]) -> Value {
    if b.len() <= INLINE_MAX {
        return json!({ "hex": hex_enc(b), "len": b.len() });
    }
    let dir = OUT_DIR.lock().unwrap().clone();
    match dir {
        Some(d) => {
            let n = OUT_CTR.fetch_add(1, Ordering::SeqCst);
            let p = d.join(format!("o{}-{}.bin", std::process::id(), n));
            std::fs::write(&p, b).unwrap_or_else(|e| panic!("harness: cannot write result file: {e}"));
            json!({ "file": p.to_string_lossy(), "len": b.len() })
        }
        None => json!({ "hex": hex_enc(b), "len": b.len() }),
    }
}

pub fn s<'a>(req: &'a Value, k: &str) -> &'a str {
    req.get(k).and_then(|x| x.as_str()).unwrap_or("")
}

/// A path parameter. "hex:<hex bytes>" stands for a path that is not valid UTF-8 (JSON strings cannot carry one).
pub fn pth(req: &Value, k: &str) -> PathBuf {
    let v = s(req, k);
    if let Some(h) = v.strip_prefix("hex:") {
        use std::os::unix::ffi::OsStringExt;
        return PathBuf::from(std::ffi::OsString::from_vec(hex_dec(h)));
    }
    PathBuf::from(v)
}

pub fn has(req: &Value, k: &str) -> bool {
    req.get(k).map(|x| !x.is_null()).unwrap_or(false)
}

pub fn parse_algo(a: &str) -> ssri::Algorithm {
    a.parse::<ssri::Algorithm>()
        .unwrap_or_else(|_| panic!("harness: bad algorithm {a}"))
}

pub fn parse_sri(x: &str) -> R {
    match x.parse::<ssri::Integrity>() {
        Ok(_) => Ok(Value::Null),
        Err(e) => Err(json!({"variant":"HarnessBadIntegrity","msg":e.to_string()})),
    }
}

pub fn sri_of(req: &Value, k: &str) -> Result<ssri::Integrity, Value> {
    let x = s(req, k);
    x.parse::<ssri::Integrity>()
        .map_err(|e| json!({"variant":"HarnessBadIntegrity","msg":e.to_string()}))
}

pub fn ioerr_json(e: &std::io::Error) -> Value {
    json!({"variant":"StdIo","kind":format!("{:?}", e.kind()),"os":e.raw_os_error(),"msg":e.to_string()})
}

pub fn err_json(e: &cacache::Error) -> Value {
    match e {
        cacache::Error::EntryNotFound(_, k) => json!({"variant":"EntryNotFound","key":k}),
        cacache::Error::SizeMismatch(a, b) => json!({"variant":"SizeMismatch","wanted":a,"actual":b}),
        cacache::Error::IoError(ioe, msg) => {
            json!({"variant":"IoError","kind":format!("{:?}", ioe.kind()),"os":ioe.raw_os_error(),"msg":msg,"inner":ioe.to_string()})
        }
        cacache::Error::SerdeError(se, msg) => json!({"variant":"SerdeError","msg":msg,"inner":se.to_string()}),
        cacache::Error::IntegrityError(ie) => json!({"variant":"IntegrityError","msg":ie.to_string()}),
    }
}

pub fn staged(mut e: Value, stage: &str) -> Value {
    if let Some(o) = e.as_object_mut() {
        o.insert("stage".into(), Value::String(stage.into()));
    }
    e
}

pub fn meta_json(m: &cacache::Metadata) -> Value {
    json!({
        "key": m.key,
        "integrity": m.integrity.to_string(),
        "time": m.time.to_string(),
        "size": m.size,
        "metadata": m.metadata,
        "raw_metadata": m.raw_metadata.as_ref().map(|b| hex_enc(b)),
    })
}

pub fn build_opts(v: Option<&Value>) -> cacache::WriteOpts {
    let mut o = cacache::WriteOpts::new();
    let v = match v {
        Some(v) if v.is_object() => v,
        _ => return o,
    };
    if has(v, "algo") {
        o = o.algorithm(parse_algo(s(v, "algo")));
    }
    if has(v, "size") {
        o = o.size(v["size"].as_u64().unwrap_or(0) as usize);
    }
    if has(v, "sri") {
        let i: ssri::Integrity = s(v, "sri")
            .parse()
            .unwrap_or_else(|e| panic!("harness: bad integrity option: {e}"));
        o = o.integrity(i);
    }
    if has(v, "time") {
        let t: u128 = match &v["time"] {
            Value::String(x) => x.parse().unwrap_or(0),
            other => other.as_u64().unwrap_or(0) as u128,
        };
        o = o.time(t);
    }
    if v.get("metadata").is_some() {
        // explicit JSON null is a supplied value too
        o = o.metadata(v["metadata"].clone());
    }
    if has(v, "raw_metadata") {
        o = o.raw_metadata(hex_dec(s(v, "raw_metadata")));
    }
    o
}

pub fn chunks_of(req: &Value) -> Vec<Vec<u8>> {
    req.get("chunks")
        .and_then(|x| x.as_array())
        .map(|a| a.iter().map(get_data).collect())
        .unwrap_or_default()
}

pub fn usize_list(req: &Value, k: &str) -> Vec<usize> {
    req.get(k)
        .and_then(|x| x.as_array())
        .map(|a| a.iter().map(|v| v.as_u64().unwrap_or(0) as usize).collect())
        .unwrap_or_default()
}

/// Regular files (or symlinks) anywhere under the cache root outside
/// index-v5/ and content-v2/.
pub fn stray_files(cache: &Path) -> Vec<String> {
    fn walk(p: &Path, out: &mut Vec<String>) {
        if let Ok(rd) = std::fs::read_dir(p) {
            for e in rd.flatten() {
                let path = e.path();
                match e.file_type() {
                    Ok(t) if t.is_dir() => walk(&path, out),
                    Ok(_) => out.push(path.to_string_lossy().into_owned()),
                    Err(_) => {}
                }
            }
        }
    }
    let mut out = Vec::new();
    if let Ok(rd) = std::fs::read_dir(cache) {
        for e in rd.flatten() {
            let name = e.file_name();
            if name == "index-v5" || name == "content-v2" {
                continue;
            }
            let path = e.path();
            match e.file_type() {
                Ok(t) if t.is_dir() => walk(&path, &mut out),
                Ok(_) => out.push(path.to_string_lossy().into_owned()),
                Err(_) => {}
            }
        }
    }
    out
}

pub fn tmp_quiesce(req: &Value) -> R {
    let cache = pth(req, "cache");
    let timeout_ms = req.get("timeout_ms").and_then(|x| x.as_u64()).unwrap_or(10_000);
    let t0 = std::time::Instant::now();
    let mut polls = 0u64;
    loop {
        polls += 1;
        let left = stray_files(&cache);
        if left.is_empty() {
            return Ok(json!({"quiet":true,"polls":polls,"left":[]}));
        }
        if t0.elapsed().as_millis() as u64 >= timeout_ms {
            return Ok(json!({"quiet":false,"polls":polls,"left":left}));
        }
        std::thread::sleep(std::time::Duration::from_millis(if polls < 20 { 1 } else { 20 }));
    }
}

// ---------------------------------------------------------------- sync ops

fn sync_writer(req: &Value) -> R {
    let cache_pb = pth(req, "cache");
    let cache = cache_pb.as_path();
    let opts_v = req.get("opts");
    let chunks = chunks_of(req);
    let flush_after = usize_list(req, "flush_after");
    let fin = if has(req, "final") { s(req, "final") } else { "commit" };
    let create = req.get("create").and_then(|x| x.as_bool()).unwrap_or(false);
    let mut w = if create {
        let algo = opts_v.and_then(|o| o.get("algo")).and_then(|a| a.as_str());
        match algo {
            Some(a) => cacache::SyncWriter::create_with_algo(parse_algo(a), cache, s(req, "key")),
            None => cacache::SyncWriter::create(cache, s(req, "key")),
        }
    } else if has(req, "key") {
        build_opts(opts_v).open_sync(cache, s(req, "key"))
    } else {
        build_opts(opts_v).open_hash_sync(cache)
    }
    .map_err(|e| staged(err_json(&e), "open"))?;
    let mut calls = 0u64;
    let mut total = 0usize;
    // Calling patterns. "vectored": all chunks are handed over as one gather list (write_vectored) instead of one
    // write per chunk. "after_write_error": what the caller does when a write fails - "fail" (default: give up),
    // "retry" (offer the same bytes once more, then go on) or "commit" (stop writing and commit what there is).
    let after_err = if has(req, "after_write_error") { s(req, "after_write_error") } else { "fail" };
    let mut write_errors: Vec<Value> = Vec::new();
    let mut stop = false;
    if req.get("vectored").and_then(|x| x.as_bool()).unwrap_or(false) {
        let mut slices: Vec<std::io::IoSlice> = chunks.iter().map(|c| std::io::IoSlice::new(c)).collect();
        let mut bufs = &mut slices[..];
        while bufs.iter().any(|b| !b.is_empty()) {
            let n = w
                .write_vectored(bufs)
                .map_err(|e| staged(ioerr_json(&e), "write_vectored"))?;
            calls += 1;
            total += n;
            if n == 0 {
                return Err(json!({"variant":"StdIo","kind":"WriteZero","stage":"write_vectored"}));
            }
            std::io::IoSlice::advance_slices(&mut bufs, n);
        }
    } else {
        for (i, c) in chunks.iter().enumerate() {
            let mut off = 0usize;
            let mut retried = false;
            loop {
                let n = match w.write(&c[off..]) {
                    Ok(n) => n,
                    Err(e) => {
                        let ej = staged(ioerr_json(&e), &format!("write[{i}]"));
                        if after_err == "retry" && !retried {
                            retried = true;
                            write_errors.push(ej);
                            continue;
                        }
                        if after_err == "commit" {
                            write_errors.push(ej);
                            stop = true;
                            break;
                        }
                        return Err(ej);
                    }
                };
                calls += 1;
                off += n;
                total += n;
                if off >= c.len() {
                    break;
                }
                if n == 0 {
                    return Err(json!({"variant":"StdIo","kind":"WriteZero","stage":format!("write[{i}]")}));
                }
            }
            if stop {
                break;
            }
            if flush_after.contains(&i) {
                w.flush().map_err(|e| staged(ioerr_json(&e), &format!("flush[{i}]")))?;
            }
        }
    }
    match fin {
        "drop" => {
            drop(w);
            Ok(json!({"dropped":true,"written":total,"calls":calls}))
        }
        "flush_drop" => {
            let r = w.flush();
            drop(w);
            r.map_err(|e| staged(ioerr_json(&e), "flush"))?;
            Ok(json!({"dropped":true,"written":total,"calls":calls}))
        }
        _ => {
            pause_before_commit(req);
            let cw0 = wall_ms();
            let sri = w.commit().map_err(|e| commit_err(&e, cache, req))?;
            Ok(json!({"sri":sri.to_string(),"written":total,"calls":calls,"commit_w0":cw0.to_string(),
                      "write_errors":write_errors}))
        }
    }
}

/// A failed commit, described while the error value is still alive: whatever the error keeps alive (e.g. a temp
/// file) is still there when the temp area is listed.
pub fn commit_err(e: &cacache::Error, cache: &Path, req: &Value) -> Value {
    let mut j = staged(err_json(e), "commit");
    // only on request ("watch_tmp_on_error"): with other writers open in the same cache their temp files are there
    if !req.get("watch_tmp_on_error").and_then(|x| x.as_bool()).unwrap_or(false) {
        return j;
    }
    // background work of the consumed writer (a blocking task dropping its temp file) may take a moment: only what is
    // still there after a second, with the error still alive, is reported
    let mut left = stray_files(cache);
    let mut polls = 0;
    while !left.is_empty() && polls < 40 {
        std::thread::sleep(std::time::Duration::from_millis(25));
        left = stray_files(cache);
        polls += 1;
    }
    if let Some(o) = j.as_object_mut() {
        o.insert("stray_while_error_alive".into(), json!(left));
    }
    j
}

// Writers that stay open across requests ("wh_open" / "wh_write" / "wh_final"), so that the harness can
// interleave the steps of several writers of one process and look at the cache between any two of them.
thread_local! {
    static SYNC_HANDLES: std::cell::RefCell<std::collections::HashMap<String, cacache::SyncWriter>> =
        std::cell::RefCell::new(std::collections::HashMap::new());
}

pub fn no_handle(wid: &str) -> Value {
    json!({"variant":"HarnessNoWriter","wid":wid})
}

fn sync_handle(req: &Value) -> R {
    let wid = s(req, "wid").to_string();
    let cache_pb = pth(req, "cache");
    let cache = cache_pb.as_path();
    match s(req, "op") {
        "wh_open" => {
            let opts_v = req.get("opts");
            let w = if has(req, "key") {
                build_opts(opts_v).open_sync(cache, s(req, "key"))
            } else {
                build_opts(opts_v).open_hash_sync(cache)
            }
            .map_err(|e| staged(err_json(&e), "open"))?;
            SYNC_HANDLES.with(|h| h.borrow_mut().insert(wid, w));
            Ok(json!({"opened":true}))
        }
        "wh_write" => {
            let mut w = SYNC_HANDLES.with(|h| h.borrow_mut().remove(&wid)).ok_or_else(|| no_handle(&wid))?;
            let c = get_data(&req["data"]);
            let mut off = 0usize;
            let mut calls = 0u64;
            let mut res: R = Ok(Value::Null);
            while off < c.len() {
                match w.write(&c[off..]) {
                    Ok(0) => {
                        res = Err(json!({"variant":"StdIo","kind":"WriteZero","stage":"write"}));
                        break;
                    }
                    Ok(n) => {
                        off += n;
                        calls += 1;
                    }
                    Err(e) => {
                        res = Err(staged(ioerr_json(&e), "write"));
                        break;
                    }
                }
            }
            if res.is_ok() && req.get("flush").and_then(|x| x.as_bool()).unwrap_or(false) {
                if let Err(e) = w.flush() {
                    res = Err(staged(ioerr_json(&e), "flush"));
                }
            }
            SYNC_HANDLES.with(|h| h.borrow_mut().insert(wid, w));
            res.map(|_| json!({"written":off,"calls":calls}))
        }
        _ => {
            let w = SYNC_HANDLES.with(|h| h.borrow_mut().remove(&wid)).ok_or_else(|| no_handle(&wid))?;
            if s(req, "final") == "drop" {
                drop(w);
                return Ok(json!({"dropped":true}));
            }
            let sri = w.commit().map_err(|e| commit_err(&e, cache, req))?;
            Ok(json!({"sri":sri.to_string()}))
        }
    }
}

/// Optional delay between the last chunk and commit(), so that "time of the commit" and "time the writer was
/// opened" can be told apart by the harness.
pub fn pause_before_commit(req: &Value) {
    if let Some(ms) = req.get("pause_before_commit_ms").and_then(|x| x.as_u64()) {
        std::thread::sleep(std::time::Duration::from_millis(ms));
    }
    // operations (through the sync API, or harness helpers) that happen while the writer is still open
    if let Some(ops) = req.get("before_commit").and_then(|x| x.as_array()) {
        for q in ops {
            if let Some(r) = harness_op(q) {
                let _ = r;
            } else {
                let _ = std::panic::catch_unwind(std::panic::AssertUnwindSafe(|| exec_sync(q)));
            }
        }
    }
}

fn sync_reader(req: &Value) -> R {
    let cache_pb = pth(req, "cache");
    let cache = cache_pb.as_path();
    let mut r = if has(req, "key") {
        cacache::SyncReader::open(cache, s(req, "key"))
    } else {
        cacache::SyncReader::open_hash(cache, sri_of(req, "sri")?)
    }
    .map_err(|e| staged(err_json(&e), "open"))?;
    let mut bufs = usize_list(req, "bufs");
    if !bufs.iter().any(|&b| b > 0) {
        bufs = vec![8192];
    }
    let mut out = Vec::new();
    let mut i = 0usize;
    let mut reads = 0u64;
    // "to_end_after": k  =>  k plain reads, then the rest through read_to_end (a different calling pattern: the
    // standard library / runtime hands the reader a partly filled buffer)
    let to_end_after = req.get("to_end_after").and_then(|x| x.as_u64());
    loop {
        if to_end_after == Some(reads) {
            r.read_to_end(&mut out).map_err(|e| staged(ioerr_json(&e), "read_to_end"))?;
            break;
        }
        let sz = bufs[i % bufs.len()];
        i += 1;
        let mut b = vec![0u8; sz];
        let n = r.read(&mut b).map_err(|e| staged(ioerr_json(&e), "read"))?;
        reads += 1;
        if sz > 0 && n == 0 {
            break;
        }
        out.extend_from_slice(&b[..n]);
    }
    let check = req.get("check").and_then(|x| x.as_bool()).unwrap_or(true);
    if check {
        let algo = r.check().map_err(|e| staged(err_json(&e), "check"))?;
        Ok(json!({"data":put_data(&out),"checked":true,"algo":algo.to_string(),"reads":reads}))
    } else {
        Ok(json!({"data":put_data(&out),"checked":false,"reads":reads}))
    }
}

fn sync_linker(req: &Value) -> R {
    let cache_pb = pth(req, "cache");
    let cache = cache_pb.as_path();
    let target_pb = pth(req, "target");
    let target = target_pb.as_path();
    let via = if has(req, "via") { s(req, "via") } else { "fn" };
    let keyed = has(req, "key");
    if via == "fn" {
        let r = if keyed {
            cacache::link_to_sync(cache, s(req, "key"), target)
        } else {
            cacache::link_to_hash_sync(cache, target)
        };
        return r
            .map(|i| json!({"sri":i.to_string()}))
            .map_err(|e| staged(err_json(&e), "link"));
    }
    let mut l = if via == "open" {
        if keyed {
            cacache::SyncToLinker::open(cache, s(req, "key"), target)
        } else {
            cacache::SyncToLinker::open_hash(cache, target)
        }
    } else if keyed {
        build_opts(req.get("opts")).link_to_sync(cache, s(req, "key"), target)
    } else {
        build_opts(req.get("opts")).link_to_hash_sync(cache, target)
    }
    .map_err(|e| staged(err_json(&e), "open"))?;
    let mut got = Vec::new();
    for sz in usize_list(req, "reads") {
        let mut b = vec![0u8; sz];
        let n = l.read(&mut b).map_err(|e| staged(ioerr_json(&e), "read"))?;
        got.extend_from_slice(&b[..n]);
    }
    if req.get("then_to_end").and_then(|x| x.as_bool()).unwrap_or(false) {
        l.read_to_end(&mut got).map_err(|e| staged(ioerr_json(&e), "read_to_end"))?;
    }
    if s(req, "final") == "drop" {
        drop(l);
        return Ok(json!({"dropped":true,"read":put_data(&got)}));
    }
    let sri = l.commit().map_err(|e| staged(err_json(&e), "commit"))?;
    Ok(json!({"sri":sri.to_string(),"read":put_data(&got)}))
}

pub fn list_json(cache: &Path) -> Value {
    let mut items = Vec::new();
    for it in cacache::list_sync(cache) {
        match it {
            Ok(m) => items.push(meta_json(&m)),
            Err(e) => items.push(json!({"err":err_json(&e)})),
        }
    }
    Value::Array(items)
}

pub fn exec_sync(req: &Value) -> R {
    let op = s(req, "op");
    let cache_pb = pth(req, "cache");
    let cache = cache_pb.as_path();
    let ce = |e: cacache::Error| err_json(&e);
    match op {
        "write" => {
            let data = get_data(&req["data"]);
            let r = if has(req, "algo") {
                cacache::write_sync_with_algo(parse_algo(s(req, "algo")), cache, s(req, "key"), &data)
            } else {
                cacache::write_sync(cache, s(req, "key"), &data)
            };
            r.map(|i| json!({"sri":i.to_string()})).map_err(ce)
        }
        "write_hash" => {
            let data = get_data(&req["data"]);
            let r = if has(req, "algo") {
                cacache::write_hash_sync_with_algo(parse_algo(s(req, "algo")), cache, &data)
            } else {
                cacache::write_hash_sync(cache, &data)
            };
            r.map(|i| json!({"sri":i.to_string()})).map_err(ce)
        }
        "writer" => sync_writer(req),
        "wh_open" | "wh_write" | "wh_final" => sync_handle(req),
        "read" => cacache::read_sync(cache, s(req, "key"))
            .map(|d| json!({"data":put_data(&d)}))
            .map_err(ce),
        "read_hash" => cacache::read_hash_sync(cache, &sri_of(req, "sri")?)
            .map(|d| json!({"data":put_data(&d)}))
            .map_err(ce),
        "reader" => sync_reader(req),
        "copy" => cacache::copy_sync(cache, s(req, "key"), pth(req, "to"))
            .map(|n| json!({"n":n}))
            .map_err(ce),
        "copy_hash" => cacache::copy_hash_sync(cache, &sri_of(req, "sri")?, pth(req, "to"))
            .map(|n| json!({"n":n}))
            .map_err(ce),
        "copy_unchecked" => cacache::copy_unchecked_sync(cache, s(req, "key"), pth(req, "to"))
            .map(|n| json!({"n":n}))
            .map_err(ce),
        "copy_hash_unchecked" => {
            cacache::copy_hash_unchecked_sync(cache, &sri_of(req, "sri")?, pth(req, "to"))
                .map(|n| json!({"n":n}))
                .map_err(ce)
        }
        "hard_link" => cacache::hard_link_sync(cache, s(req, "key"), pth(req, "to"))
            .map(|_| json!({}))
            .map_err(ce),
        "hard_link_hash" => cacache::hard_link_hash_sync(cache, &sri_of(req, "sri")?, pth(req, "to"))
            .map(|_| json!({}))
            .map_err(ce),
        "hard_link_unchecked" => cacache::hard_link_unchecked_sync(cache, s(req, "key"), pth(req, "to"))
            .map(|_| json!({}))
            .map_err(ce),
        "hard_link_hash_unchecked" => {
            cacache::hard_link_hash_unchecked_sync(cache, &sri_of(req, "sri")?, pth(req, "to"))
                .map(|_| json!({}))
                .map_err(ce)
        }
        "reflink" => cacache::reflink_sync(cache, s(req, "key"), pth(req, "to"))
            .map(|_| json!({}))
            .map_err(ce),
        "reflink_hash" => cacache::reflink_hash_sync(cache, &sri_of(req, "sri")?, pth(req, "to"))
            .map(|_| json!({}))
            .map_err(ce),
        "reflink_unchecked" => cacache::reflink_unchecked_sync(cache, s(req, "key"), pth(req, "to"))
            .map(|_| json!({}))
            .map_err(ce),
        "reflink_hash_unchecked" => {
            cacache::reflink_hash_unchecked_sync(cache, &sri_of(req, "sri")?, pth(req, "to"))
                .map(|_| json!({}))
                .map_err(ce)
        }
        "metadata" => cacache::metadata_sync(cache, s(req, "key"))
            .map(|m| json!({"entry": m.as_ref().map(meta_json)}))
            .map_err(ce),
        "exists" => Ok(json!({"exists": cacache::exists_sync(cache, &sri_of(req, "sri")?)})),
        "list" | "index_ls" => {
            if op == "list" {
                Ok(json!({"items": list_json(cache)}))
            } else {
                let mut items = Vec::new();
                for it in cacache::index::ls(cache) {
                    match it {
                        Ok(m) => items.push(meta_json(&m)),
                        Err(e) => items.push(json!({"err":err_json(&e)})),
                    }
                }
                Ok(json!({"items": items}))
            }
        }
        "remove" => cacache::remove_sync(cache, s(req, "key")).map(|_| json!({})).map_err(ce),
        "remove_hash" => cacache::remove_hash_sync(cache, &sri_of(req, "sri")?)
            .map(|_| json!({}))
            .map_err(ce),
        "remove_fully" => cacache::RemoveOpts::new()
            .remove_fully(true)
            .remove_sync(cache, s(req, "key"))
            .map(|_| json!({}))
            .map_err(ce),
        "remove_opts" => cacache::RemoveOpts::new()
            .remove_fully(false)
            .remove_sync(cache, s(req, "key"))
            .map(|_| json!({}))
            .map_err(ce),
        "clear" => cacache::clear_sync(cache).map(|_| json!({})).map_err(ce),
        "index_insert" => cacache::index::insert(cache, s(req, "key"), build_opts(req.get("opts")))
            .map(|i| json!({"sri":i.to_string()}))
            .map_err(ce),
        "index_find" => cacache::index::find(cache, s(req, "key"))
            .map(|m| json!({"entry": m.as_ref().map(meta_json)}))
            .map_err(ce),
        "index_delete" => cacache::index::delete(cache, s(req, "key"))
            .map(|_| json!({}))
            .map_err(ce),
        "link_to" | "linker" => sync_linker(req),
        _ => Err(json!({"variant":"HarnessUnknownOp","op":op})),
    }
}

// ---------------------------------------------------------------- dispatch

static PANICS: Mutex<Vec<String>> = Mutex::new(Vec::new());

fn take_panics() -> Vec<String> {
    std::mem::take(&mut *PANICS.lock().unwrap_or_else(|e| e.into_inner()))
}

fn harness_op(req: &Value) -> Option<R> {
    match s(req, "op") {
        "chdir" => Some(
            std::env::set_current_dir(s(req, "dir"))
                .map(|_| json!({}))
                .map_err(|e| ioerr_json(&e)),
        ),
        "tmp_quiesce" => Some(tmp_quiesce(req)),
        "stray" => Some(Ok(json!({"left": stray_files(&pth(req, "cache"))}))),
        "sleep" => {
            std::thread::sleep(std::time::Duration::from_millis(
                req.get("ms").and_then(|x| x.as_u64()).unwrap_or(1),
            ));
            Some(Ok(json!({})))
        }
        "rmtree" => {
            let p = s(req, "path");
            let r = if Path::new(p).is_dir() { std::fs::remove_dir_all(p) } else { std::fs::remove_file(p) };
            Some(Ok(json!({"removed": r.is_ok()})))
        }
        "chmod" => {
            use std::os::unix::fs::PermissionsExt;
            let mode = req.get("mode").and_then(|x| x.as_u64()).unwrap_or(0o644) as u32;
            let r = std::fs::set_permissions(pth(req, "path"), std::fs::Permissions::from_mode(mode));
            Some(Ok(json!({"changed": r.is_ok()})))
        }
        "poke" => {
            // flip one bit of a file in place (same inode, same length): open, pread, pwrite
            use std::os::unix::fs::FileExt;
            let off = req.get("offset").and_then(|x| x.as_u64()).unwrap_or(0);
            let r = std::fs::OpenOptions::new().read(true).write(true).open(pth(req, "path")).and_then(|f| {
                let mut b = [0u8; 1];
                f.read_exact_at(&mut b, off)?;
                b[0] ^= 1;
                f.write_all_at(&b, off)
            });
            Some(r.map(|_| json!({})).map_err(|e| ioerr_json(&e)))
        }
        "ping" => Some(Ok(json!({"pong":true,"flavour":flavour(),"pid":std::process::id()}))),
        _ => None,
    }
}

pub fn flavour() -> &'static str {
    if cfg!(feature = "astd") {
        "astd"
    } else if cfg!(feature = "tok") {
        "tok"
    } else {
        "sync"
    }
}

fn finish(req: &Value, t0: u64, w0: u128, res: std::thread::Result<R>) -> Value {
    let t1 = now_ns();
    let w1 = wall_ms();
    let mut m = Map::new();
    if let Some(id) = req.get("id") {
        m.insert("id".into(), id.clone());
    }
    m.insert("t0".into(), json!(t0));
    m.insert("t1".into(), json!(t1));
    m.insert("w0".into(), json!(w0.to_string()));
    m.insert("w1".into(), json!(w1.to_string()));
    match res {
        Ok(Ok(v)) => {
            m.insert("ok".into(), v);
        }
        Ok(Err(e)) => {
            m.insert("err".into(), e);
        }
        Err(p) => {
            let msg = if let Some(x) = p.downcast_ref::<&str>() {
                x.to_string()
            } else if let Some(x) = p.downcast_ref::<String>() {
                x.clone()
            } else {
                "non-string panic payload".to_string()
            };
            m.insert("panic".into(), json!({"msg":msg,"hook":take_panics()}));
        }
    }
    let stray = take_panics();
    if !stray.is_empty() && !m.contains_key("panic") {
        // a panic happened on some other thread (e.g. a blocking task) while the
        // call itself returned: report it next to the result
        m.insert("bg_panic".into(), json!(stray));
    }
    Value::Object(m)
}

fn exec_parallel_sync(req: &Value) -> R {
    let progs: Vec<Vec<Value>> = req["programs"]
        .as_array()
        .map(|a| a.iter().map(|p| p.as_array().cloned().unwrap_or_default()).collect())
        .unwrap_or_default();
    let barrier = std::sync::Arc::new(std::sync::Barrier::new(progs.len()));
    let mut hs = Vec::new();
    for p in progs {
        let b = barrier.clone();
        hs.push(std::thread::spawn(move || {
            b.wait();
            p.iter().map(exec_one).collect::<Vec<Value>>()
        }));
    }
    let mut out = Vec::new();
    for h in hs {
        match h.join() {
            Ok(v) => out.push(Value::Array(v)),
            Err(_) => out.push(json!({"panic":"thread died"})),
        }
    }
    Ok(json!({"results": out}))
}

/// Execute one request (any mode) and build its response.
pub fn exec_one(req: &Value) -> Value {
    let t0 = now_ns();
    let w0 = wall_ms();
    let mode = if has(req, "mode") { s(req, "mode") } else { "sync" };
    let res = std::panic::catch_unwind(std::panic::AssertUnwindSafe(|| -> R {
        if let Some(r) = harness_op(req) {
            return r;
        }
        if s(req, "op") == "parallel" {
            if mode == "sync" {
                return exec_parallel_sync(req);
            }
            #[cfg(any(feature = "astd", feature = "tok"))]
            return asyncops::block_on(asyncops::exec_parallel_async(req));
            #[cfg(not(any(feature = "astd", feature = "tok")))]
            return Err(json!({"variant":"HarnessUnsupported"}));
        }
        if mode == "sync" {
            exec_sync(req)
        } else {
            #[cfg(any(feature = "astd", feature = "tok"))]
            return asyncops::block_on(asyncops::exec_async(req));
            #[cfg(not(any(feature = "astd", feature = "tok")))]
            return Err(json!({"variant":"HarnessUnsupported"}));
        }
    }));
    finish(req, t0, w0, res)
}

/// Requests may carry metadata nested deeper than serde_json's default limit.
fn parse_req(line: &str) -> Result<Value, serde_json::Error> {
    use serde_json::Deserializer;
    let mut de = Deserializer::from_str(line);
    de.disable_recursion_limit();
    serde::Deserialize::deserialize(&mut de)
}

fn main() {
    std::panic::set_hook(Box::new(|info| {
        let loc = info
            .location()
            .map(|l| format!("{}:{}", l.file(), l.line()))
            .unwrap_or_default();
        let msg = if let Some(x) = info.payload().downcast_ref::<&str>() {
            x.to_string()
        } else if let Some(x) = info.payload().downcast_ref::<String>() {
            x.clone()
        } else {
            String::new()
        };
        if let Ok(mut g) = PANICS.lock() {
            g.push(format!("{msg} @ {loc}"));
        }
    }));
    if std::env::var_os("CV_MARKERS").is_some() {
        MARKERS.store(true, Ordering::Relaxed);
    }
    if let Some(d) = std::env::var_os("CV_OUT_DIR") {
        *OUT_DIR.lock().unwrap() = Some(PathBuf::from(d));
    }
    let args: Vec<String> = std::env::args().collect();
    #[cfg(any(feature = "astd", feature = "tok"))]
    asyncops::init_runtime();
    let stdout = std::io::stdout();
    if args.len() >= 3 && args[1] == "run" {
        // script mode: execute every line of the script, responses to <out> or stdout; an optional 5th argument is
        // the directory for large results (cargo-miri replays the environment of its BUILD step, so under Miri the
        // environment variable cannot be trusted)
        if args.len() >= 5 {
            *OUT_DIR.lock().unwrap() = Some(PathBuf::from(&args[4]));
        }
        let f = std::fs::File::open(&args[2]).expect("script");
        let mut out: Box<dyn Write> = if args.len() >= 4 {
            Box::new(std::io::BufWriter::new(std::fs::File::create(&args[3]).expect("out")))
        } else {
            Box::new(stdout.lock())
        };
        for line in std::io::BufReader::new(f).lines() {
            let line = line.expect("script line");
            if line.trim().is_empty() {
                continue;
            }
            let req: Value = parse_req(&line).expect("script json");
            marker("begin");
            let resp = exec_one(&req);
            marker("end");
            writeln!(out, "{}", resp).unwrap();
            out.flush().unwrap();
        }
        return;
    }
    if args.len() >= 3 && args[1] == "op" {
        let req: Value = parse_req(&args[2]).expect("op json");
        marker("begin");
        let resp = exec_one(&req);
        marker("end");
        println!("{}", resp);
        return;
    }
    // server mode
    let stdin = std::io::stdin();
    let mut line = String::new();
    loop {
        line.clear();
        match stdin.lock().read_line(&mut line) {
            Ok(0) | Err(_) => break,
            Ok(_) => {}
        }
        if line.trim().is_empty() {
            continue;
        }
        let req: Value = match parse_req(&line) {
            Ok(v) => v,
            Err(e) => {
                println!("{}", json!({"harness_error": e.to_string()}));
                continue;
            }
        };
        if s(&req, "op") == "exit" {
            break;
        }
        marker("begin");
        let resp = exec_one(&req);
        marker("end");
        let mut o = stdout.lock();
        let _ = writeln!(o, "{}", resp);
        let _ = o.flush();
    }
}
